package props

import (
	"encoding/binary"
	"fmt"
	"math/bits"
	"sort"

	"github.com/golang/protobuf/proto"
	"github.com/openacid/low/bitmap"
	"github.com/openacid/slim/trie"
)

// Re-implemented writers for the historical on-disk layouts. The repository
// contains no old writer; these are validated byte-for-byte against the
// archived files under /repo/trie/testdata (see TestLegacyWriterFidelity).
//
// Three-section layouts (families A..E) are written from scratch and share no
// code with /repo. The 0.5.10/0.5.11 layout is derived from the current
// builder's message by re-encoding the parts that changed in 0.5.12.

// ---- minimal protobuf writer ----

func pbVarint(b []byte, v uint64) []byte {
	for v >= 0x80 {
		b = append(b, byte(v)|0x80)
		v >>= 7
	}
	return append(b, byte(v))
}
func pbTag(b []byte, num, wt int) []byte { return pbVarint(b, uint64(num<<3|wt)) }
func pbBytes(b []byte, num int, p []byte) []byte {
	b = pbTag(b, num, 2)
	b = pbVarint(b, uint64(len(p)))
	return append(b, p...)
}
func pbPackedU64(b []byte, num int, vs []uint64) []byte {
	if len(vs) == 0 {
		return b
	}
	var p []byte
	for _, v := range vs {
		p = pbVarint(p, v)
	}
	return pbBytes(b, num, p)
}
func pbPackedI32(b []byte, num int, vs []int32) []byte {
	if len(vs) == 0 {
		return b
	}
	var p []byte
	for _, v := range vs {
		p = pbVarint(p, uint64(int64(v)))
	}
	return pbBytes(b, num, p)
}

type oldArray struct {
	cnt      int32
	bitmaps  []uint64
	offsets  []int32
	elts     []byte
	flags    uint32
	eltWidth int32
	hasBM    bool
	bmN      int32
	bmWords  []uint64
	bmRank   []int32
}

func (a *oldArray) marshal() []byte {
	var b []byte
	if a.cnt != 0 {
		b = pbTag(b, 1, 0)
		b = pbVarint(b, uint64(a.cnt))
	}
	b = pbPackedU64(b, 2, a.bitmaps)
	b = pbPackedI32(b, 3, a.offsets)
	if len(a.elts) > 0 {
		b = pbBytes(b, 4, a.elts)
	}
	if a.flags != 0 {
		b = pbTag(b, 10, 0)
		b = pbVarint(b, uint64(a.flags))
	}
	if a.eltWidth != 0 {
		b = pbTag(b, 20, 0)
		b = pbVarint(b, uint64(a.eltWidth))
	}
	if a.hasBM {
		var m []byte
		if a.bmN != 0 {
			m = pbTag(m, 10, 0)
			m = pbVarint(m, uint64(a.bmN))
		}
		m = pbPackedU64(m, 20, a.bmWords)
		m = pbPackedI32(m, 30, a.bmRank)
		b = pbBytes(b, 30, m)
	}
	return b
}

func indexBitmap(ids []int32, nwords int) ([]uint64, []int32) {
	if len(ids) == 0 && nwords == 0 {
		return nil, nil
	}
	n := nwords
	if len(ids) > 0 {
		need := int(ids[len(ids)-1]>>6) + 1
		if need > n {
			n = need
		}
	}
	words := make([]uint64, n)
	for _, i := range ids {
		words[i>>6] |= 1 << uint(i&63)
	}
	offs := make([]int32, n)
	c := int32(0)
	for i, w := range words {
		if w != 0 {
			offs[i] = c
		}
		c += int32(bits.OnesCount64(w))
	}
	return words, offs
}

type oldNode struct {
	step     int    // stored step value (skipped+1); for leaf-only: remaining+1
	bm       uint16 // children labels
	hasInner bool
	hasLeaf  bool
	val      []byte
}

func nib(k string, i int) byte {
	b := k[i>>1]
	if i&1 == 0 {
		return b >> 4
	}
	return b & 0xf
}

// buildOld builds the pre-0.5.10 trie nodes in BFS order.
func buildOld(keys []string, vals [][]byte) []oldNode {
	type sub struct{ s, e, from int }
	if len(keys) == 0 {
		return nil
	}
	var nodes []oldNode
	q := []sub{{0, len(keys), 0}}
	for qi := 0; qi < len(q); qi++ {
		o := q[qi]
		if o.e-o.s == 1 {
			k := keys[o.s]
			nodes = append(nodes, oldNode{step: 2*len(k) - o.from + 1, hasLeaf: true, val: vals[o.s]})
			continue
		}
		first, last := keys[o.s], keys[o.e-1]
		l := o.from
		for l < 2*len(first) && l < 2*len(last) && nib(first, l) == nib(last, l) {
			l++
		}
		n := oldNode{step: l - o.from + 1, hasInner: true}
		s := o.s
		if 2*len(first) == l {
			n.hasLeaf = true
			n.val = vals[o.s]
			s++
		}
		for s < o.e {
			lab := nib(keys[s], l)
			j := s + 1
			for j < o.e && nib(keys[j], l) == lab {
				j++
			}
			n.bm |= 1 << lab
			q = append(q, sub{s, j, l + 1})
			s = j
		}
		nodes = append(nodes, n)
	}
	return nodes
}

func streamHeader(ver string, n int) []byte {
	h := make([]byte, 32)
	copy(h, ver)
	binary.LittleEndian.PutUint64(h[16:], 32)
	binary.LittleEndian.PutUint64(h[24:], uint64(n))
	return h
}

var legacy3Families = []string{"A", "B", "C1", "C2", "D", "E"}

// legacy3Limits reports whether the old writers could encode the key set:
// every step must fit in 16 bits and, for the u32 children encoding,
// every node id in 16 bits.
func legacy3Encodable(nodes []oldNode, family string) error {
	for _, n := range nodes {
		if n.step > 0xffff && (n.hasInner || family == "A") {
			return fmt.Errorf("step %d does not fit u16", n.step)
		}
	}
	if (family == "A" || family == "B") && len(nodes) > 0xffff {
		return fmt.Errorf("%d nodes do not fit the 16-bit child rank of the u32 children encoding", len(nodes))
	}
	return nil
}

// writeOld produces a three-section stream.
// family: "A" 0.5.0, "B" 0.5.1-3, "C1" 0.5.4-6, "C2" 0.5.7, "D" 0.5.8, "E" 0.5.9
// sections returns the byte offset of the end of every section.
func writeOld(keys []string, vals [][]byte, family string, verOverride string) (stream []byte, sections []int, err error) {
	nodes := buildOld(keys, vals)
	if err := legacy3Encodable(nodes, family); err != nil {
		return nil, nil, err
	}
	ver := "1.0.0"
	if family == "D" {
		ver = "0.5.8"
	}
	if family == "E" {
		ver = "0.5.9"
	}
	if verOverride != "" {
		ver = verOverride
	}
	var chIDs, stIDs, lfIDs []int32
	var chElts, stElts, lfElts []byte
	var bmWords []uint64
	nextChild := int32(1)
	nInner := 0
	for id, n := range nodes {
		if n.hasInner {
			chIDs = append(chIDs, int32(id))
			if family == "A" || family == "B" {
				var e [4]byte
				binary.LittleEndian.PutUint16(e[0:], n.bm)
				binary.LittleEndian.PutUint16(e[2:], uint16(nextChild))
				chElts = append(chElts, e[:]...)
			} else {
				bit := nInner * 16
				for len(bmWords) <= (bit+15)>>6 {
					bmWords = append(bmWords, 0)
				}
				bmWords[bit>>6] |= uint64(n.bm) << uint(bit&63)
			}
			nInner++
			nextChild += int32(bits.OnesCount16(n.bm))
		}
		if n.step > 1 && (n.hasInner || family == "A") {
			stIDs = append(stIDs, int32(id))
			var e [2]byte
			binary.LittleEndian.PutUint16(e[:], uint16(n.step))
			stElts = append(stElts, e[:]...)
		}
		if n.hasLeaf {
			lfIDs = append(lfIDs, int32(id))
			lfElts = append(lfElts, n.val...)
		}
	}
	nw := 0
	if family == "E" && len(nodes) > 0 {
		nw = (len(nodes) + 63) >> 6
	}
	ch := &oldArray{cnt: int32(len(chIDs))}
	ch.bitmaps, ch.offsets = indexBitmap(chIDs, nw)
	if family == "A" || family == "B" {
		ch.elts = chElts
	} else if len(nodes) > 0 || family == "C1" {
		ch.flags = 3
		ch.eltWidth = 16
		ch.hasBM = true
		n := int32(0)
		for i := len(bmWords) - 1; i >= 0; i-- {
			if bmWords[i] != 0 {
				n = int32(i*64 + 64 - bits.LeadingZeros64(bmWords[i]))
				break
			}
		}
		ch.bmN = n
		ch.bmWords = bmWords
		var idx []int32
		c := int32(0)
		for i := 0; i < len(bmWords); i += 2 {
			idx = append(idx, c)
			c += int32(bits.OnesCount64(bmWords[i]))
			if i < len(bmWords)-1 {
				c += int32(bits.OnesCount64(bmWords[i+1]))
			}
		}
		if len(bmWords)&1 == 0 {
			idx = append(idx, c)
		}
		ch.bmRank = idx
	}
	st := &oldArray{cnt: int32(len(stIDs)), elts: stElts}
	st.bitmaps, st.offsets = indexBitmap(stIDs, nw)
	lf := &oldArray{cnt: int32(len(lfIDs)), elts: lfElts}
	lf.bitmaps, lf.offsets = indexBitmap(lfIDs, nw)
	var out []byte
	for _, a := range []*oldArray{ch, st, lf} {
		body := a.marshal()
		out = append(out, streamHeader(ver, len(body))...)
		out = append(out, body...)
		sections = append(sections, len(out))
	}
	return out, sections, nil
}

// ---- 0.5.10 / 0.5.11 ----

type rawField struct {
	num int
	raw []byte
}

func splitFields(b []byte) []rawField {
	var out []rawField
	for len(b) > 0 {
		tag, n := proto.DecodeVarint(b)
		if n == 0 {
			break
		}
		wt := tag & 7
		num := int(tag >> 3)
		l := n
		switch wt {
		case 0:
			_, m := proto.DecodeVarint(b[n:])
			l += m
		case 1:
			l += 8
		case 5:
			l += 4
		case 2:
			sz, m := proto.DecodeVarint(b[n:])
			l += m + int(sz)
		default:
			return out
		}
		if l > len(b) {
			return out
		}
		out = append(out, rawField{num, b[:l]})
		b = b[l:]
	}
	return out
}

// to0510 rewrites a stream of the current version into the 0.5.10/0.5.11 layout.
func to0510(cur []byte, ver string) ([]byte, error) {
	s := &trie.Slim{}
	if err := proto.Unmarshal(cur[32:], s); err != nil {
		return nil, err
	}
	ips := s.InnerPrefixes
	if ips != nil && ips.PositionBM != nil && len(ips.Bytes) > 0 {
		pbm := ips.PositionBM
		nb := make([]byte, len(ips.Bytes))
		for i := int32(0); ; i++ {
			from, to := bitmap.Select32R64(pbm.Words, pbm.SelectIndex, pbm.RankIndex, i)
			bs := ips.Bytes[from:to]
			l := len(bs)
			mask := bs[l-1]
			old := nb[from:to]
			copy(old[1:], bs[:l-1])
			if mask == 0xff {
				old[0] = 0
			} else {
				old[0] = 1
				marker := (mask & -mask) >> 1
				old[l-1] |= marker
			}
			if to == int32(len(ips.Bytes)) {
				break
			}
		}
		ips.Bytes = nb
	}
	if s.Leaves != nil {
		s.Leaves = &trie.VLenArray{Bytes: s.Leaves.Bytes}
	}
	for _, v := range []*trie.VLenArray{s.InnerPrefixes, s.LeafPrefixes} {
		if v != nil && v.PositionBM != nil {
			for i := range v.PositionBM.SelectIndex {
				v.PositionBM.SelectIndex[i] >>= 6
			}
		}
	}
	// fields 12, 13, 15 were removed in 0.5.12
	var unk []byte
	bigOff := int64((257 - 17) * s.BigInnerCnt)
	if bigOff != 0 {
		unk = append(unk, proto.EncodeVarint(12<<3)...)
		unk = append(unk, proto.EncodeVarint(uint64(bigOff))...)
	}
	smi := int64(s.ShortSize - 17)
	unk = append(unk, proto.EncodeVarint(13<<3)...)
	unk = append(unk, proto.EncodeVarint(uint64(smi))...)
	mask := bitmap.Mask[s.ShortSize]
	if mask != 0 {
		unk = append(unk, proto.EncodeVarint(15<<3)...)
		unk = append(unk, proto.EncodeVarint(mask)...)
	}
	if s.NodeTypeBM == nil {
		unk = nil // empty slim
	}
	s.XXX_unrecognized = unk
	body, err := proto.Marshal(s)
	if err != nil {
		return nil, err
	}
	fs := splitFields(body)
	sort.SliceStable(fs, func(i, j int) bool { return fs[i].num < fs[j].num })
	body = nil
	for _, f := range fs {
		body = append(body, f.raw...)
	}
	return append(streamHeader(ver, len(body)), body...), nil
}

// ---- entry points ----

var legacyLayouts = []string{"A", "B", "C1", "C2", "D", "E", "0.5.10", "0.5.11"}

func isLegacy3(layout string) bool {
	switch layout {
	case "A", "B", "C1", "C2", "D", "E":
		return true
	}
	return false
}

// legacyOK tells whether the case can be expressed in the layout (soundness
// restrictions from DESIGN.md 3.5). The returned string explains a refusal.
func legacyOK(c *Case, layout string) string {
	if isLegacy3(layout) {
		if !c.HasVals {
			return "three-section layouts need values"
		}
		if c.spec().width == 0 {
			return "old writers supported fixed-size values only"
		}
		if c.Opt.dedup() || c.Opt.inner() || c.Opt.leaf() {
			return "three-section layouts have no options: model them as dedup off, no prefixes"
		}
		return ""
	}
	if c.HasVals && c.spec().width == 0 {
		return "old writers supported fixed-size values only"
	}
	if c.Opt.leaf() && !c.Opt.inner() {
		return "leaf-prefix-only 0.5.10 streams have no archived reference"
	}
	if c.Opt.complete() && !c.HasVals {
		return "allpref without values: writer defect F5 assumed present in the old writer"
	}
	return ""
}

// legacyStream produces the stream for the case in the given layout.
func legacyStream(c *Case, layout string) ([]byte, error) {
	if why := legacyOK(c, layout); why != "" {
		return nil, fmt.Errorf("case not expressible in layout %s: %s", layout, why)
	}
	if isLegacy3(layout) {
		s := c.spec()
		vals := make([][]byte, len(c.Vals))
		for i, p := range c.Vals {
			vals[i] = s.ref([]byte(p))
		}
		b, _, err := writeOld(c.keys(), vals, layout, string(c.Ver))
		return b, err
	}
	fresh, err := c.build()
	if err != nil {
		return nil, err
	}
	cur, err := fresh.Marshal()
	if err != nil {
		return nil, err
	}
	return to0510(cur, layout)
}
