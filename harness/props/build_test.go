package props

import (
	"fmt"
	"hash/fnv"
	"strings"
	"testing"

	"pgregory.net/rapid"
)

// ---- C08 ----

// injectViolation makes the list not strictly ascending at a drawn position.
func injectViolation(t *rapid.T, keys []string) ([]string, string, bool) {
	kinds := []string{"equal", "swap", "prefix-after", "signed-7f80", "signed-ff00"}
	kind := kinds[pickU(t, "vkind", len(kinds))]
	if len(keys) == 0 {
		keys = []string{"a"}
	}
	i := rapid.IntRange(0, len(keys)-1).Draw(t, "vpos")
	inner := i > 0 && i < len(keys)-1
	out := append([]string{}, keys[:i+1]...)
	switch kind {
	case "equal":
		out = append(out, keys[i])
		out = append(out, keys[i+1:]...)
	case "swap":
		if i+1 < len(keys) {
			out = append(out[:i], keys[i+1], keys[i])
			out = append(out, keys[i+2:]...)
		} else {
			out = append(out, keys[i])
		}
	case "prefix-after":
		k := keys[i] + "\x00"
		out = append(out[:i], k, k[:len(k)-1])
		out = append(out, keys[i+1:]...)
	case "signed-7f80":
		k := keys[i]
		out = append(out[:i], k+"\x80", k+"\x7f")
		out = append(out, keys[i+1:]...)
	case "signed-ff00":
		k := keys[i]
		out = append(out[:i], k+"\xff", k+"\x00")
		out = append(out, keys[i+1:]...)
	}
	return out, kind, inner
}

func TestC08(t *testing.T) {
	runProp(t, "C08", liveCheck(checkC08), func(t *rapid.T) *Case {
		c := &Case{}
		fams := []famWeight{{"K1", 30}, {"K2", 15}, {"K3", 10}, {"K4", 10}, {"K5", 15}, {"K6", 5}, {"Krand", 5}}
		keys, fam := genKeysFam(t, fams, sizeCap{small: 200, big: 10000, huge: 10000})
		c.Gen = fam
		c.Enc = genEnc(t, allEncNames)
		c.Opt = genOpt(t)
		switch pickU(t, "c08kind", 10) {
		case 0, 1, 2: // valid control
			c.Gen += "/valid"
		case 3: // drawn step length around the 16-bit boundary and beyond the documented key length
			L := rapid.OneOf(rapid.IntRange(0, 70000), rapid.IntRange(65000, 66100), rapid.IntRange(131000, 131200)).Draw(t, "L")
			keys = ladderKeys(L, pickU(t, "place", ladderPlacements), rapid.SampledFrom([]byte{0x00, 0x61, 0xff}).Draw(t, "fill"))
			c.Gen = "ladder"
			if L > 65530 && L < 65542 {
				c.Scrib = 1
			}
		default:
			nv := rapid.IntRange(1, 3).Draw(t, "nviol")
			kinds := ""
			for j := 0; j < nv; j++ {
				var kind string
				var inner bool
				keys, kind, inner = injectViolation(t, keys)
				kinds += "/" + kind
				if inner {
					c.Scrib = 1
				}
			}
			c.Gen += kinds
		}
		c.Keys = hexes(keys)
		c.HasVals = rapid.IntRange(0, 3).Draw(t, "hasvals") != 0
		if c.HasVals {
			c.Vals, c.VMode = genVals(t, len(keys), c.Enc, false)
		}
		genEarlier(t, c)
		return c
	})
}
func TestReplayC08(t *testing.T) { runReplay(t, "C08", liveCheck(checkC08)) }

// TestC08Ladder enumerates single-branch run lengths around every interesting
// boundary, at four placements, in every effective mode, with and without values.
func TestC08Ladder(t *testing.T) {
	st := newStats("C08")
	defer st.write()
	shard, nshards := envInt("VERIF_SHARD", 0), envInt("VERIF_NSHARDS", 1)
	centers := []int{0, 1, 2, 255, 256, 257, 32767, 32768, 65534, 65535, 65536, 65537, 70000, 131071, 131072, 200000}
	var Ls []int
	seen := map[int]bool{}
	for _, cn := range centers {
		for d := -2; d <= 2; d++ {
			if L := cn + d; L >= 0 && !seen[L] {
				seen[L] = true
				Ls = append(Ls, L)
			}
		}
	}
	n := 0
	for _, L := range Ls {
		for place := 0; place < ladderPlacements; place++ {
			for mode := 0; mode < 4; mode++ {
				for dedup := Tri(1); dedup <= 2; dedup++ {
					for hv := 0; hv < 2; hv++ {
						n++
						if n%nshards != shard {
							continue
						}
						if !thorough() && (n/nshards)%2 == 1 && L > 300 {
							continue // quick tier: half of the long combinations
						}
						keys := ladderKeys(L, place, 0x61)
						c := &Case{Prop: "C08", Gen: fmt.Sprintf("ladder L=%d place=%d", L, place), Keys: hexes(keys), Enc: "I32", HasVals: hv == 1}
						c.Opt = [][4]Tri{{dedup, 0, 0, 0}, {dedup, 2, 0, 0}, {dedup, 0, 2, 0}, {dedup, 0, 0, 2}}[mode]
						if c.HasVals {
							for i := range keys {
								c.Vals = append(c.Vals, Hex(leBytes(uint64(i+1), 4)))
							}
						}
						near := false
						for _, b := range []int{256, 32768, 65536, 131072} {
							if L >= b-2 && L <= b+2 {
								near = true
							}
						}
						if near {
							c.Scrib = 1
						}
						sub := newStats("C08")
						if err := checkC08(c, sub); err != nil {
							if _, ok := err.(*violation); !ok {
								t.Fatalf("HARNESS ERROR: %v", err)
							}
							path := writeReplay("C08", c)
							fmt.Printf("VIOLATION property=C08 replay=%s\n", path)
							fmt.Printf("DETAIL property=C08 %s\n", oneLine(err.Error()))
							t.Fatalf("C08 violated: %v", err)
						}
						h := fnv.New64a()
						fmt.Fprintf(h, "ladder/%d/%d/%d/%d/%d", L, place, mode, dedup, hv)
						st.doneHash(h.Sum64(), near)
						for k, v := range sub.Classes {
							if !strings.HasPrefix(k, "gen=") {
								st.classN("ladder:"+k, v)
							}
						}
						if near && len(st.Samples) < 3 {
							cc := *c
							st.Samples = append(st.Samples, cc.sample())
						}
					}
				}
			}
		}
	}
	st.Exhaustive["step ladder (L x placement x mode x dedup x values)"] = int64(st.Evaluations)
}

// TestC08LargeOrder: ONE order violation in a list of 140 000 keys, at every
// power-of-two index (and its neighbours), at multiples of 65536/10000 and at the
// ends. Every such list must be rejected; the intact list must be accepted.
func TestC08LargeOrder(t *testing.T) {
	st := newStats("C08")
	defer st.write()
	shard, nshards := envInt("VERIF_SHARD", 0), envInt("VERIF_NSHARDS", 1)
	const n = 140000
	base := make([]string, n)
	for i := range base {
		v := uint32(i) * 7
		base[i] = string([]byte{byte(v >> 24), byte(v >> 16), byte(v >> 8), byte(v), 'k'})
	}
	pos := map[int]bool{0: true, 1: true, n - 2: true, n - 1: true}
	for k := uint(6); k <= 17; k++ {
		for d := -2; d <= 2; d++ {
			if p := (1 << k) + d; p >= 0 && p < n {
				pos[p] = true
			}
		}
	}
	for p := 10000; p < n; p += 10000 {
		pos[p] = true
	}
	for p := 65536; p < n; p += 65536 {
		pos[p-1], pos[p], pos[p+1] = true, true, true
	}
	var ps []int
	for p := range pos {
		ps = append(ps, p)
	}
	sortInts(ps)
	run := func(c *Case, what string) {
		sub := newStats("C08")
		if err := checkC08(c, sub); err != nil {
			if _, ok := err.(*violation); !ok {
				t.Fatalf("HARNESS ERROR: %v", err)
			}
			path := writeReplay("C08", c)
			fmt.Printf("VIOLATION property=C08 replay=%s\n", path)
			fmt.Printf("DETAIL property=C08 %s: %s\n", what, oneLine(err.Error()))
			t.Fatalf("C08 violated (%s): %v", what, err)
		}
		for k, v := range sub.Classes {
			if !strings.HasPrefix(k, "gen=") {
				st.classN("largelist:"+k, v)
			}
		}
		h := fnv.New64a()
		fmt.Fprint(h, what)
		st.doneHash(h.Sum64(), true)
	}
	if shard == 0 {
		c := &Case{Prop: "C08", Gen: "largelist/valid", Keys: hexes(base), Enc: "I32", Opt: OptSpec{0, 0, 0, 0}}
		run(c, "intact list of 140000 keys")
		st.addSample(map[string]interface{}{"gen": "largelist", "n": n, "note": "keys are 4-byte big-endian counters*7 + 'k'; one violation injected at index p", "positions": ps[:20]})
	}
	for i, p := range ps {
		if i%nshards != shard {
			continue
		}
		for _, kind := range []string{"swap", "equal"} {
			if p+1 >= n {
				continue
			}
			keys := append([]string{}, base...)
			if kind == "swap" {
				keys[p], keys[p+1] = keys[p+1], keys[p]
			} else {
				keys[p+1] = keys[p]
			}
			c := &Case{Prop: "C08", Gen: fmt.Sprintf("largelist/%s", kind), Keys: hexes(keys), Enc: "I32", Opt: OptSpec{0, 0, 0, Tri(2 * (i % 2))}, Scrib: 1}
			run(c, fmt.Sprintf("%s at index %d of %d", kind, p, n))
		}
	}
	st.Exhaustive["one violation in a 140000-key list, at boundary indexes"] = int64(st.Evaluations)
}

func sortInts(a []int) {
	for i := 1; i < len(a); i++ {
		for j := i; j > 0 && a[j-1] > a[j]; j-- {
			a[j-1], a[j] = a[j], a[j-1]
		}
	}
}

// TestC08ConcurrentBuilds: independent NewSlimTrie calls running at the same
// time in different goroutines. Every accepted build must find its own keys;
// building is a function of its arguments, whatever else is being built.
// (The schedule is sampled; the race build of C11 runs the same phase under the
// race detector.) The replay file names the round; replaying runs it again.
func TestC08ConcurrentBuilds(t *testing.T) {
	st := newStats("C08")
	defer st.write()
	rounds := 48 // (12 until session 2: on a machine with a load of 60 the builds hardly overlapped)
	if thorough() {
		rounds = 240
	}
	for round := 0; round < rounds; round++ {
		if err := concurrentRound(round, st); err != nil {
			if _, ok := err.(*violation); !ok {
				t.Fatalf("HARNESS ERROR: %v", err)
			}
			path := writeReplay("C08", &Case{Prop: "C08", Gen: "concurrent-round", Block: round})
			fmt.Printf("VIOLATION property=C08 replay=%s\n", path)
			fmt.Printf("DETAIL property=C08 8 builds running at the same time: %s\n", oneLine(err.Error()))
			t.Fatalf("C08 violated: %v", err)
		}
	}
	st.addSample(map[string]interface{}{"gen": "concurrent-round", "goroutines": 8, "rounds": rounds, "note": "each goroutine builds its own key set (steps of different lengths, four option levels) and checks Get on every own key"})
}
