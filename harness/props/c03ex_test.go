package props

import (
	"fmt"
	"hash/fnv"
	"testing"

	"github.com/openacid/slim/encode"
	"github.com/openacid/slim/trie"
)

// universe returns all strings of length <= maxLen over alpha, in byte order of generation.
func universe(alpha []byte, maxLen int) []string {
	out := []string{""}
	prev := []string{""}
	for l := 1; l <= maxLen; l++ {
		var cur []string
		for _, p := range prev {
			for _, a := range alpha {
				cur = append(cur, p+string([]byte{a}))
			}
		}
		out = append(out, cur...)
		prev = cur
	}
	return uniqSorted(out)
}

type exhaustSpec struct {
	name    string
	alpha   []byte
	maxLen  int
	maxKeys int
}

func exhaustSpecs() []exhaustSpec {
	if thorough() {
		return []exhaustSpec{
			{"{00,01,10,ff}^<=2,<=5keys", []byte{0x00, 0x01, 0x10, 0xff}, 2, 5},
			{"{00,0f,f0,ff}^<=3,<=4keys", []byte{0x00, 0x0f, 0xf0, 0xff}, 3, 4},
			{"{00,80,ff}^<=3,<=5keys", []byte{0x00, 0x80, 0xff}, 3, 5},
			{"{07,08}^<=4,<=5keys", []byte{0x07, 0x08}, 4, 5},
		}
	}
	return []exhaustSpec{
		{"{00,01,10,ff}^<=2,<=5keys", []byte{0x00, 0x01, 0x10, 0xff}, 2, 5},
		{"{7f,80}^<=3,<=4keys", []byte{0x7f, 0x80}, 3, 4},
	}
}

// smallVariant is one (key set, dedup, value pattern) of a small universe.
type smallVariant struct {
	c     *Case
	keys  []string
	vals  []int32
	setNo int64
	dedup Tri
	pat   int
}

// enumSmall enumerates every key set of bounded size over the universe of sp,
// and for each set: (dedup on x every neighbour-equality pattern of values),
// (dedup off x all-distinct), (dedup off x all-equal), (no values).
// visit returns a violation (or nil); the first violation stops the enumeration.
func enumSmall(sp exhaustSpec, shard, nshards int, opt OptSpec, visit func(v *smallVariant, u []string) error) (sets, variants int64, fail error, failCase *Case) {
	u := universe(sp.alpha, sp.maxLen)
	idx := make([]int, 0, sp.maxKeys)
	var setNo int64
	var rec func(start int)
	one := func() {
		setNo++
		if int(setNo%int64(nshards)) != shard {
			return
		}
		sets++
		keys := make([]string, len(idx))
		for i, j := range idx {
			keys[i] = u[j]
		}
		n := len(keys)
		npat := 1
		if n > 1 {
			npat = 1 << uint(n-1)
		}
		type variant struct {
			dedup   Tri
			pattern int
			vals    bool
		}
		var vs []variant
		for p := 0; p < npat; p++ {
			vs = append(vs, variant{2, p, true})
		}
		vs = append(vs, variant{1, 0, true}, variant{1, npat - 1, true}, variant{0, 0, false})
		for _, v := range vs {
			vals := make([]int32, n)
			id := int32(7)
			for i := range vals {
				if i > 0 && v.pattern&(1<<uint(i-1)) == 0 {
					id++
				}
				vals[i] = id
			}
			o := opt
			o[0] = v.dedup
			c := &Case{Gen: "exhaustive", Keys: hexes(keys), Enc: "I32", HasVals: v.vals, Opt: o}
			if v.vals {
				for _, x := range vals {
					c.Vals = append(c.Vals, Hex(leBytes(uint64(uint32(x)), 4)))
				}
			}
			variants++
			if err := visit(&smallVariant{c: c, keys: keys, vals: vals, setNo: setNo, dedup: v.dedup, pat: v.pattern}, u); err != nil && fail == nil {
				fail, failCase = err, c
			}
		}
	}
	rec = func(start int) {
		if fail != nil {
			return
		}
		one()
		if len(idx) == sp.maxKeys {
			return
		}
		for j := start; j < len(u); j++ {
			idx = append(idx, j)
			rec(j + 1)
			idx = idx[:len(idx)-1]
		}
	}
	rec(0)
	return
}

// reportEnumFailure prints the VIOLATION line for an enumerated case.
func reportEnumFailure(t *testing.T, prop string, st *Stats, c *Case, err error, where string) {
	if _, ok := err.(*violation); !ok {
		t.Fatalf("HARNESS ERROR: %v", err)
	}
	c.Prop = prop
	path := writeReplay(prop, c)
	msg := fmt.Sprintf("VIOLATION property=%s replay=%s", prop, path)
	fmt.Println(msg)
	fmt.Printf("DETAIL property=%s %s\n", prop, oneLine(err.Error()))
	st.Violations = append(st.Violations, msg)
	t.Fatalf("%s violated in exhaustive universe %s: %v", prop, where, err)
}

func variantHash(name string, v *smallVariant, extra int) uint64 {
	h := fnv.New64a()
	fmt.Fprintf(h, "%s/%d/%d/%d/%v/%d", name, v.setNo, v.dedup, v.pat, v.c.HasVals, extra)
	return h.Sum64()
}

// TestC03Exhaustive enumerates every key set of bounded size over a small
// universe, every dedup setting, every neighbour-equality pattern of values,
// and queries every string of the universe. VERIF_SEED is irrelevant here.
func TestC03Exhaustive(t *testing.T) {
	st := newStats("C03")
	defer st.write()
	shard, nshards := envInt("VERIF_SHARD", 0), envInt("VERIF_NSHARDS", 1)
	for _, sp := range exhaustSpecs() {
		u := universe(sp.alpha, sp.maxLen)
		var sets, tries int64
		idx := make([]int, 0, sp.maxKeys)
		var setNo int64
		var fail error
		var failCase *Case
		var rec func(start int)
		visit := func() {
			setNo++
			if int(setNo%int64(nshards)) != shard {
				return
			}
			sets++
			keys := make([]string, len(idx))
			for i, j := range idx {
				keys[i] = u[j]
			}
			n := len(keys)
			npat := 1
			if n > 1 {
				npat = 1 << uint(n-1)
			}
			// variants: (dedup on, every pattern), (dedup off, distinct), (dedup off, all equal), (no values)
			type variant struct {
				dedup   Tri
				pattern int
				vals    bool
			}
			var vs []variant
			for p := 0; p < npat; p++ {
				vs = append(vs, variant{2, p, true})
			}
			vs = append(vs, variant{1, 0, true}, variant{1, npat - 1, true}, variant{0, 0, false})
			for _, v := range vs {
				vals := make([]int32, n)
				id := int32(7)
				for i := range vals {
					if i > 0 && v.pattern&(1<<uint(i-1)) == 0 {
						id++
					}
					vals[i] = id
				}
				c := &Case{Prop: "C03", Gen: "exhaustive", Keys: hexes(keys), Enc: "I32", HasVals: v.vals,
					Opt: OptSpec{v.dedup, 0, 0, 2}}
				if v.vals {
					for _, x := range vals {
						c.Vals = append(c.Vals, Hex(leBytes(uint64(uint32(x)), 4)))
					}
				}
				m := newModel(c)
				err := guard("exhaustive universe", func() error {
					var tr *trie.SlimTrie
					var e error
					if v.vals {
						tr, e = trie.NewSlimTrie(encode.I32{}, keys, vals, c.Opt.opt())
					} else {
						tr, e = trie.NewSlimTrie(encode.I32{}, keys, nil, c.Opt.opt())
					}
					if e != nil {
						return viol("build", "NewSlimTrie rejected valid input: %v", e)
					}
					for _, x := range u {
						if e := checkExact(tr, m, x, v.vals); e != nil {
							c.Extra = append(c.Extra, Hex(x))
							return e
						}
					}
					return nil
				})
				tries++
				if err != nil && fail == nil {
					fail, failCase = err, c
				}
				h := fnv.New64a()
				fmt.Fprintf(h, "%s/%d/%d/%d/%v", sp.name, setNo, v.dedup, v.pattern, v.vals)
				st.doneHash(h.Sum64(), n >= 2)
				if tries%50000 == 1 && len(st.Samples) < 4 {
					st.addSample(c)
				}
			}
			st.calls(len(vs) * len(u) * 4)
		}
		rec = func(start int) {
			if fail != nil {
				return
			}
			visit()
			if len(idx) == sp.maxKeys {
				return
			}
			for j := start; j < len(u); j++ {
				idx = append(idx, j)
				rec(j + 1)
				idx = idx[:len(idx)-1]
			}
		}
		rec(0)
		st.mu.Lock()
		st.Exhaustive[sp.name+" key sets"] += sets
		st.Exhaustive[sp.name+" tries"] += tries
		st.Exhaustive[sp.name+" universe strings"] = int64(len(u))
		st.mu.Unlock()
		if fail != nil {
			path := writeReplay("C03", failCase)
			msg := fmt.Sprintf("VIOLATION property=C03 replay=%s", path)
			fmt.Println(msg)
			fmt.Printf("DETAIL property=C03 %s\n", oneLine(fail.Error()))
			st.Violations = append(st.Violations, msg)
			t.Fatalf("C03 violated in exhaustive universe %s: %v", sp.name, fail)
		}
	}
}
