package props

import (
	"encoding/binary"
	"fmt"
	"reflect"

	"github.com/golang/protobuf/proto"
	"github.com/openacid/slim/array"
	"github.com/openacid/slim/encode"
)

// ---------------------------------------------------------------------------
// C16: compacted arrays.

type arrStruct struct {
	A uint16
	B int32
	C [2]uint8
}

// typedArray abstracts over the six typed arrays and the generic one.
type typedArray struct {
	kind     string
	width    int
	msg      proto.Message                       // the array itself
	base     *array.Base                         // its Base
	get      func(idx int32) (interface{}, bool) // typed accessor
	newEmpty func() (proto.Message, *array.Base, func(int32) (interface{}, bool))
	// mkSlice builds the typed element slice (generic arrays only)
	mkSlice func(raws []uint64) interface{}
}

// arrBlank has blank (reserved / padding) fields: encoding/binary writes them as
// zero bytes and skips them when reading; they occupy their bytes.
type arrBlank struct {
	K   uint8
	_   [3]byte
	Off uint32
	_   uint16
	T   int16
}

// genKind: the generic array.Array over an element type, either with the
// encoder the library chooses (enc == nil) or with one the user configured
// through the exported EltEncoder field.
type genKind struct {
	width int
	elt   func(raw uint64) interface{}
	bytes func(raw uint64) []byte
	slice func(raws []uint64) interface{}
	enc   func() encode.Encoder
}

func beBytes(v uint64, w int) []byte { return putOrd(nil, v, w, true) }

func mustEnc(e encode.Encoder, err error) encode.Encoder {
	if err != nil {
		panic(err)
	}
	return e
}

var genKinds = map[string]*genKind{
	"GenI32": {4, func(r uint64) interface{} { return int32(r) }, func(r uint64) []byte { return leBytes(r, 4) },
		func(raws []uint64) interface{} {
			e := make([]int32, len(raws))
			for i, r := range raws {
				e[i] = int32(r)
			}
			return e
		}, nil},
	"GenU32BE": {4, func(r uint64) interface{} { return uint32(r) }, func(r uint64) []byte { return beBytes(r, 4) },
		func(raws []uint64) interface{} {
			e := make([]uint32, len(raws))
			for i, r := range raws {
				e[i] = uint32(r)
			}
			return e
		}, func() encode.Encoder { return mustEnc(encode.NewTypeEncoderEndian(uint32(0), binary.BigEndian)) }},
	"GenI64BE": {8, func(r uint64) interface{} { return int64(r) }, func(r uint64) []byte { return beBytes(r, 8) },
		func(raws []uint64) interface{} {
			e := make([]int64, len(raws))
			for i, r := range raws {
				e[i] = int64(r)
			}
			return e
		}, func() encode.Encoder { return mustEnc(encode.NewTypeEncoderEndian(int64(0), binary.BigEndian)) }},
	"GenU16Enc": {2, func(r uint64) interface{} { return uint16(r) }, func(r uint64) []byte { return leBytes(r, 2) },
		func(raws []uint64) interface{} {
			e := make([]uint16, len(raws))
			for i, r := range raws {
				e[i] = uint16(r)
			}
			return e
		}, func() encode.Encoder { return encode.U16{} }},
	"GenNamedBE": {4, func(r uint64) interface{} { return namedU32(r) }, func(r uint64) []byte { return beBytes(r, 4) },
		func(raws []uint64) interface{} {
			e := make([]namedU32, len(raws))
			for i, r := range raws {
				e[i] = namedU32(r)
			}
			return e
		}, func() encode.Encoder { return mustEnc(encode.NewTypeEncoderEndian(namedU32(0), binary.BigEndian)) }},
	"GenStructBE": {8, func(r uint64) interface{} { return structOf(r) },
		func(r uint64) []byte {
			b := beBytes(r&0xffff, 2)
			b = append(b, beBytes(r>>16&0xffffffff, 4)...)
			return append(b, byte(r>>48), byte(r>>56))
		},
		func(raws []uint64) interface{} {
			e := make([]arrStruct, len(raws))
			for i, r := range raws {
				e[i] = structOf(r)
			}
			return e
		}, func() encode.Encoder { return mustEnc(encode.NewTypeEncoderEndian(arrStruct{}, binary.BigEndian)) }},
	"GenBlank": {12, func(r uint64) interface{} { return arrBlank{K: uint8(r), Off: uint32(r >> 8), T: int16(r >> 40)} },
		func(r uint64) []byte {
			b := []byte{byte(r), 0, 0, 0}
			b = append(b, leBytes(r>>8, 4)...)
			b = append(b, 0, 0)
			return append(b, leBytes(r>>40, 2)...)
		},
		func(raws []uint64) interface{} {
			e := make([]arrBlank, len(raws))
			for i, r := range raws {
				e[i] = arrBlank{K: uint8(r), Off: uint32(r >> 8), T: int16(r >> 40)}
			}
			return e
		}, nil},
}

var genKindNames = []string{"GenI32", "GenU32BE", "GenI64BE", "GenU16Enc", "GenNamedBE", "GenStructBE", "GenBlank"}

// genericEmpty: an empty generic array prepared to receive a serialized array of
// this kind (the user configures the same encoder again).
func genericEmpty(kind string) (*array.Array, error) {
	if gk := genKinds[kind]; gk != nil && gk.enc != nil {
		a := &array.Array{}
		a.EltEncoder = gk.enc()
		return a, nil
	}
	return array.NewEmpty(eltOf(kind, 0))
}

func structOf(raw uint64) arrStruct {
	return arrStruct{A: uint16(raw), B: int32(raw >> 16), C: [2]uint8{uint8(raw >> 48), uint8(raw >> 56)}}
}

func eltOf(kind string, raw uint64) interface{} {
	switch kind {
	case "U16":
		return uint16(raw)
	case "U32":
		return uint32(raw)
	case "U64":
		return raw
	case "I16":
		return int16(raw)
	case "I32":
		return int32(raw)
	case "I64":
		return int64(raw)
	case "Struct":
		return structOf(raw)
	}
	if gk := genKinds[kind]; gk != nil {
		return gk.elt(raw)
	}
	panic("harness: unknown array kind " + kind)
}

func eltBytes(kind string, raw uint64) []byte {
	switch kind {
	case "U16", "I16":
		return leBytes(raw, 2)
	case "U32", "I32":
		return leBytes(raw, 4)
	case "U64", "I64":
		return leBytes(raw, 8)
	case "Struct":
		b := leBytes(raw, 2)
		b = append(b, leBytes(raw>>16, 4)...)
		return append(b, byte(raw>>48), byte(raw>>56))
	}
	if gk := genKinds[kind]; gk != nil {
		return gk.bytes(raw)
	}
	panic("harness: unknown array kind " + kind)
}

// buildArray constructs the array of the given kind; err is the constructor's error.
func buildArray(kind string, idx []int32, raws []uint64) (ta *typedArray, err error) {
	ta = &typedArray{kind: kind}
	switch kind {
	case "U16":
		e := make([]uint16, len(raws))
		for i, r := range raws {
			e[i] = uint16(r)
		}
		a, er := array.NewU16(idx, e)
		if er != nil {
			if a != nil {
				return nil, viol("array-err-and-value", "NewU16 returned an error and a non-nil array")
			}
			return nil, er
		}
		ta.width, ta.msg, ta.base = 2, a, &a.Base
		ta.get = func(i int32) (interface{}, bool) { v, ok := a.Get(i); return v, ok }
		ta.newEmpty = func() (proto.Message, *array.Base, func(int32) (interface{}, bool)) {
			b := &array.U16{}
			return b, &b.Base, func(i int32) (interface{}, bool) { v, ok := b.Get(i); return v, ok }
		}
	case "U32":
		e := make([]uint32, len(raws))
		for i, r := range raws {
			e[i] = uint32(r)
		}
		a, er := array.NewU32(idx, e)
		if er != nil {
			if a != nil {
				return nil, viol("array-err-and-value", "NewU32 returned an error and a non-nil array")
			}
			return nil, er
		}
		ta.width, ta.msg, ta.base = 4, a, &a.Base
		ta.get = func(i int32) (interface{}, bool) { v, ok := a.Get(i); return v, ok }
		ta.newEmpty = func() (proto.Message, *array.Base, func(int32) (interface{}, bool)) {
			b := &array.U32{}
			return b, &b.Base, func(i int32) (interface{}, bool) { v, ok := b.Get(i); return v, ok }
		}
	case "U64":
		e := make([]uint64, len(raws))
		copy(e, raws)
		a, er := array.NewU64(idx, e)
		if er != nil {
			if a != nil {
				return nil, viol("array-err-and-value", "NewU64 returned an error and a non-nil array")
			}
			return nil, er
		}
		ta.width, ta.msg, ta.base = 8, a, &a.Base
		ta.get = func(i int32) (interface{}, bool) { v, ok := a.Get(i); return v, ok }
		ta.newEmpty = func() (proto.Message, *array.Base, func(int32) (interface{}, bool)) {
			b := &array.U64{}
			return b, &b.Base, func(i int32) (interface{}, bool) { v, ok := b.Get(i); return v, ok }
		}
	case "I16":
		e := make([]int16, len(raws))
		for i, r := range raws {
			e[i] = int16(r)
		}
		a, er := array.NewI16(idx, e)
		if er != nil {
			if a != nil {
				return nil, viol("array-err-and-value", "NewI16 returned an error and a non-nil array")
			}
			return nil, er
		}
		ta.width, ta.msg, ta.base = 2, a, &a.Base
		ta.get = func(i int32) (interface{}, bool) { v, ok := a.Get(i); return v, ok }
		ta.newEmpty = func() (proto.Message, *array.Base, func(int32) (interface{}, bool)) {
			b := &array.I16{}
			return b, &b.Base, func(i int32) (interface{}, bool) { v, ok := b.Get(i); return v, ok }
		}
	case "I32":
		e := make([]int32, len(raws))
		for i, r := range raws {
			e[i] = int32(r)
		}
		a, er := array.NewI32(idx, e)
		if er != nil {
			if a != nil {
				return nil, viol("array-err-and-value", "NewI32 returned an error and a non-nil array")
			}
			return nil, er
		}
		ta.width, ta.msg, ta.base = 4, a, &a.Base
		ta.get = func(i int32) (interface{}, bool) { v, ok := a.Get(i); return v, ok }
		ta.newEmpty = func() (proto.Message, *array.Base, func(int32) (interface{}, bool)) {
			b := &array.I32{}
			return b, &b.Base, func(i int32) (interface{}, bool) { v, ok := b.Get(i); return v, ok }
		}
	case "I64":
		e := make([]int64, len(raws))
		for i, r := range raws {
			e[i] = int64(r)
		}
		a, er := array.NewI64(idx, e)
		if er != nil {
			if a != nil {
				return nil, viol("array-err-and-value", "NewI64 returned an error and a non-nil array")
			}
			return nil, er
		}
		ta.width, ta.msg, ta.base = 8, a, &a.Base
		ta.get = func(i int32) (interface{}, bool) { v, ok := a.Get(i); return v, ok }
		ta.newEmpty = func() (proto.Message, *array.Base, func(int32) (interface{}, bool)) {
			b := &array.I64{}
			return b, &b.Base, func(i int32) (interface{}, bool) { v, ok := b.Get(i); return v, ok }
		}
	case "Struct":
		e := make([]arrStruct, len(raws))
		for i, r := range raws {
			e[i] = eltOf(kind, r).(arrStruct)
		}
		a, er := array.New(idx, e)
		if er != nil {
			if a != nil {
				return nil, viol("array-err-and-value", "array.New returned an error and a non-nil array")
			}
			return nil, er
		}
		ta.width, ta.msg, ta.base = 8, a, &a.Base
		ta.get = func(i int32) (interface{}, bool) { return a.Get(i) }
		ta.mkSlice = func(raws []uint64) interface{} {
			e := make([]arrStruct, len(raws))
			for i, r := range raws {
				e[i] = eltOf("Struct", r).(arrStruct)
			}
			return e
		}
		ta.newEmpty = func() (proto.Message, *array.Base, func(int32) (interface{}, bool)) {
			b, err := array.NewEmpty(arrStruct{})
			if err != nil {
				panic(err)
			}
			return b, &b.Base, func(i int32) (interface{}, bool) { return b.Get(i) }
		}
	default:
		gk := genKinds[kind]
		if gk == nil {
			return nil, fmt.Errorf("unknown array kind %q", kind)
		}
		var a *array.Array
		var er error
		if gk.enc == nil {
			a, er = array.New(idx, gk.slice(raws))
			if er != nil && a != nil {
				return nil, viol("array-err-and-value", "array.New returned an error and a non-nil array")
			}
		} else {
			a = &array.Array{}
			a.EltEncoder = gk.enc()
			er = a.Init(idx, gk.slice(raws))
		}
		if er != nil {
			return nil, er
		}
		ta.width, ta.msg, ta.base = gk.width, a, &a.Base
		ta.get = func(i int32) (interface{}, bool) { return a.Get(i) }
		ta.mkSlice = gk.slice
		ta.newEmpty = func() (proto.Message, *array.Base, func(int32) (interface{}, bool)) {
			b, err := genericEmpty(kind)
			if err != nil {
				panic(err)
			}
			return b, &b.Base, func(i int32) (interface{}, bool) { return b.Get(i) }
		}
	}
	return ta, nil
}

func ascendingIdx(idx []int32) bool {
	for i := 1; i < len(idx); i++ {
		if idx[i-1] >= idx[i] {
			return false
		}
	}
	return true
}

// Two DIFFERENT struct types that print the same name (declared in different
// function scopes; the same happens with equally named types of two packages).
func sameNameElts1(n int) interface{} {
	type rec struct {
		A uint16
		B int32
	}
	out := make([]rec, n)
	for i := range out {
		out[i] = rec{A: uint16(i + 1), B: int32(-i - 1)}
	}
	return out
}
func sameNameElts2(n int) interface{} {
	type rec struct {
		X uint64
		Y [3]uint8
	}
	out := make([]rec, n)
	for i := range out {
		out[i] = rec{X: uint64(i)<<40 | 7, Y: [3]uint8{1, 2, uint8(i)}}
	}
	return out
}

func checkSameNamedTypes() error {
	return guard("generic arrays of two equally named element types", func() error {
		idx := []int32{0, 5, 64, 200}
		for round, elts := range []interface{}{sameNameElts1(4), sameNameElts2(4), sameNameElts1(4)} {
			a, err := array.New(idx, elts)
			if err != nil {
				return viol("valid-rejected", "array.New rejected valid input (element type %T): %v", elts, err)
			}
			rv := reflect.ValueOf(elts)
			for i, ix := range idx {
				v, ok := a.Get(ix)
				if !ok || !reflect.DeepEqual(v, rv.Index(i).Interface()) {
					return viol("array-get", "round %d, element type %T: Get(%d) = (%v,%v), want %v", round, elts, ix, v, ok, rv.Index(i).Interface())
				}
			}
			if _, ok := a.Get(3); ok {
				return viol("array-get", "Get(3) found an element that was never stored")
			}
		}
		return nil
	})
}

// checkC16 wraps the array check with a two-object history: an array built
// earlier and kept alive must read the same after the case built, loaded and
// failed to build other arrays.
func checkC16(c *Case, s *Stats) error {
	if c.Gen == "concurrent-round" {
		// a replay: the outcome depends on the schedule, so the round is repeated
		for rep := 0; rep < 40; rep++ {
			if err := concurrentArrays(c.Block, s); err != nil {
				return err
			}
			if err := concurrentArrayReaders(c.Block, s); err != nil {
				return err
			}
		}
		return nil
	}
	eidx := []int32{1, 2, 63, 64, 130, 700, 4099}
	eraw := []uint64{0xa1, 0xb2b2, 0xc3c3c3, 0xd4d4d4d4, 0xe5, 0xf6f6, 0x0707070707070707}
	for _, p := range c.Probe {
		if p%8192 > eidx[len(eidx)-1] {
			eidx = append(eidx, p%8192)
			eraw = append(eraw, uint64(p)*0x9e3779b97f4a7c15)
		}
	}
	earlier, eerr := buildArray(c.Kind, eidx, eraw)
	if eerr != nil || earlier == nil {
		if v, ok := eerr.(*violation); ok {
			return v
		}
		return viol("valid-rejected", "constructor rejected valid input for the earlier array: %v", eerr)
	}
	var before string
	if err := guard("reading an array right after building it", func() error {
		before = fmt.Sprintf("%v", snapshotArray(earlier, 9000))
		return nil
	}); err != nil {
		return err
	}
	if err := checkC16inner(c, s); err != nil {
		return err
	}
	if c.Kind == "Struct" {
		if err := checkSameNamedTypes(); err != nil {
			return err
		}
	}
	var after string
	if err := guard("reading an array built earlier", func() error {
		after = fmt.Sprintf("%v", snapshotArray(earlier, 9000))
		return nil
	}); err != nil {
		return err
	}
	if after != before {
		return viol("live-array-changed", "an array that was built earlier and is still alive reads differently after later array builds: %.300s -> %.300s", before, after)
	}
	// history on ONE object (C16-h): the earlier array has been read through its
	// accessor; now other content (another index set, other elements) is loaded into
	// the same object with proto.Unmarshal. It must read exactly like a fresh array
	// holding that content — whatever the first reads left behind.
	oidx := make([]int32, 0, len(eidx))
	oraw := make([]uint64, 0, len(eidx))
	for i, x := range eidx {
		if i%3 != 1 {
			oidx = append(oidx, x+int32(i%2)*3+int32(len(c.Idx)%5))
			oraw = append(oraw, eraw[i]^0x5555aaaa5555aaaa)
		}
	}
	if !ascendingIdx(oidx) {
		return nil
	}
	other, oerr := buildArray(c.Kind, oidx, oraw)
	if oerr != nil || other == nil {
		if v, ok := oerr.(*violation); ok {
			return v
		}
		return viol("valid-rejected", "constructor rejected valid input: %v", oerr)
	}
	var want, got string
	if err := guard("proto.Unmarshal into an array that was read before", func() error {
		buf, e := proto.Marshal(other.msg)
		if e != nil {
			return viol("array-roundtrip", "proto.Marshal failed: %v", e)
		}
		if e := proto.Unmarshal(buf, earlier.msg); e != nil {
			return viol("array-roundtrip", "proto.Unmarshal into a used %s array failed: %v", c.Kind, e)
		}
		want = fmt.Sprintf("%v", snapshotArray(other, 9000))
		got = fmt.Sprintf("%v", snapshotArray(earlier, 9000))
		return nil
	}); err != nil {
		return err
	}
	if want != got {
		return viol("array-residue", "a %s array that had been read and was then loaded with other content (proto.Unmarshal) reads %.300s, a fresh array with that content reads %.300s", c.Kind, got, want)
	}
	s.class("loaded_into_a_used_array")
	return nil
}

func checkC16inner(c *Case, s *Stats) error {
	kind := c.Kind
	idx := c.Idx
	raws := make([]uint64, len(c.Ints))
	for i, v := range c.Ints {
		raws[i] = uint64(v)
	}
	s.class("kind=" + kind)
	valid := ascendingIdx(idx) && len(idx) == len(raws)
	var ta *typedArray
	var berr error
	err := guard("array constructor", func() error {
		ta, berr = buildArray(kind, idx, raws)
		if v, ok := berr.(*violation); ok {
			return v
		}
		return nil
	})
	if err != nil {
		return err
	}
	if !valid {
		if berr == nil {
			return viol("invalid-accepted", "constructor accepted %d indexes (ascending=%v) with %d elements", len(idx), ascendingIdx(idx), len(raws))
		}
		wantLen, wantAsc := len(idx) != len(raws), !ascendingIdx(idx)
		isLen, isAsc := berr == array.ErrIndexLen, berr == array.ErrIndexNotAscending
		if !(isLen && wantLen) && !(isAsc && wantAsc) {
			return viol("wrong-error", "constructor rejected invalid input (len mismatch=%v, not ascending=%v) with %v", wantLen, wantAsc, berr)
		}
		// Init on an existing array must leave it observably unchanged
		if len(c.Probe) > 0 {
			good, _ := buildArray(kind, []int32{1, 70, 200}, []uint64{11, 22, 33})
			before, serr := safeSnapshot(good, 256)
			if serr != nil {
				return serr
			}
			err := guard("Init with invalid input on an existing array", func() error {
				var e error
				switch a := good.msg.(type) {
				case *array.U16:
					el := make([]uint16, len(raws))
					e = a.Init(idx, el)
				case *array.U32:
					el := make([]uint32, len(raws))
					e = a.Init(idx, el)
				case *array.U64:
					el := make([]uint64, len(raws))
					e = a.Init(idx, el)
				case *array.I16:
					el := make([]int16, len(raws))
					e = a.Init(idx, el)
				case *array.I32:
					el := make([]int32, len(raws))
					e = a.Init(idx, el)
				case *array.I64:
					el := make([]int64, len(raws))
					e = a.Init(idx, el)
				case *array.Array:
					e = a.Init(idx, good.mkSlice(make([]uint64, len(raws))))
				}
				if e == nil {
					return viol("invalid-accepted", "Init accepted invalid input")
				}
				return nil
			})
			if err != nil {
				return err
			}
			after, serr := safeSnapshot(good, 256)
			if serr != nil {
				return serr
			}
			if after != before {
				return viol("partial-init", "a rejected Init changed an existing array: %s -> %s", before, after)
			}
			s.class("rejected_init_leaves_array_unchanged")
		}
		// "build nothing": a fresh generic array on which an Init was REJECTED is
		// still a fresh array: a valid Init with another element type must work
		err = guard("valid Init after a rejected Init on a fresh generic array", func() error {
			ga := &array.Array{}
			var e error
			switch kind {
			case "U16", "I16":
				e = ga.Init(idx, make([]uint16, len(raws)))
			case "U32", "I32":
				e = ga.Init(idx, make([]int32, len(raws)))
			case "U64", "I64", "GenI64BE":
				e = ga.Init(idx, make([]uint64, len(raws)))
			default:
				e = ga.Init(idx, make([]arrStruct, len(raws)))
			}
			if e == nil {
				return viol("invalid-accepted", "Array.Init accepted invalid input")
			}
			if e2 := ga.Init([]int32{2, 70}, []uint32{0xdeadbeef, 7}); e2 != nil {
				return viol("rejected-init-left-residue", "a valid Init after a rejected Init on the same fresh array failed: %v", e2)
			}
			v, ok := ga.Get(2)
			v2, ok2 := ga.Get(70)
			_, ok3 := ga.Get(3)
			if !ok || !ok2 || ok3 || !reflect.DeepEqual(v, uint32(0xdeadbeef)) || !reflect.DeepEqual(v2, uint32(7)) {
				return viol("rejected-init-left-residue", "after a rejected Init and a valid Init: Get(2)=(%v,%v) Get(70)=(%v,%v) Get(3) found=%v", v, ok, v2, ok2, ok3)
			}
			return nil
		})
		if err != nil {
			return err
		}
		if wantLen {
			s.class("invalid=length")
		}
		if wantAsc {
			s.class("invalid=order")
		}
		s.done(c, true, "invalid")
		return nil
	}
	if berr != nil {
		return viol("valid-rejected", "constructor rejected %d strictly ascending indexes with equally many elements: %v", len(idx), berr)
	}
	if c.Scrib == 1 && len(idx) > 0 {
		// history: the array object first held other content and is then re-initialised
		// earlier content: drawn indexes (from c.Probe) spread over the words the new content may skip
		seen := map[int32]bool{0: true, 3: true, 64: true, 65: true, 200: true, 4000: true}
		for _, p := range c.Probe {
			seen[p%8192] = true
			seen[(p>>3)%512] = true
		}
		var fidx []int32
		for k := range seen {
			fidx = append(fidx, k)
		}
		for i := 1; i < len(fidx); i++ {
			for j := i; j > 0 && fidx[j-1] > fidx[j]; j-- {
				fidx[j-1], fidx[j] = fidx[j], fidx[j-1]
			}
		}
		fraws := make([]uint64, len(fidx))
		for i := range fraws {
			fraws[i] = 0x1111111111111111 * uint64(i+1)
		}
		first, ferr := buildArray(kind, fidx, fraws)
		if ferr != nil || first == nil {
			return fmt.Errorf("harness: cannot build the earlier content: %v", ferr)
		}
		var e error
		err := guard("Init on an array that already holds other content", func() error {
			switch a := first.msg.(type) {
			case *array.U16:
				el := make([]uint16, len(raws))
				for i, r := range raws {
					el[i] = uint16(r)
				}
				e = a.Init(idx, el)
			case *array.U32:
				el := make([]uint32, len(raws))
				for i, r := range raws {
					el[i] = uint32(r)
				}
				e = a.Init(idx, el)
			case *array.U64:
				e = a.Init(idx, append([]uint64{}, raws...))
			case *array.I16:
				el := make([]int16, len(raws))
				for i, r := range raws {
					el[i] = int16(r)
				}
				e = a.Init(idx, el)
			case *array.I32:
				el := make([]int32, len(raws))
				for i, r := range raws {
					el[i] = int32(r)
				}
				e = a.Init(idx, el)
			case *array.I64:
				el := make([]int64, len(raws))
				for i, r := range raws {
					el[i] = int64(r)
				}
				e = a.Init(idx, el)
			case *array.Array:
				e = a.Init(idx, first.mkSlice(raws))
			}
			return nil
		})
		if err != nil {
			return err
		}
		if e != nil {
			return viol("valid-rejected", "Init on an existing array rejected valid input: %v", e)
		}
		ta = first // everything below checks the re-initialised object
		s.class("reinit_history")
	}
	// model
	model := map[int32]uint64{}
	for i, ix := range idx {
		model[ix] = raws[i]
	}
	span := int32(len(ta.base.Bitmaps) * 64)
	if len(idx) > 0 && span <= idx[len(idx)-1] {
		return viol("span", "bitmap span %d does not cover the last index %d", span, idx[len(idx)-1])
	}
	// probes within the span
	var probes []int32
	if span <= 4096 {
		for i := int32(0); i < span; i++ {
			probes = append(probes, i)
		}
	} else {
		seen := map[int32]bool{}
		add := func(i int32) {
			if i >= 0 && i < span && !seen[i] {
				seen[i] = true
				probes = append(probes, i)
			}
		}
		for _, ix := range idx {
			add(ix - 1)
			add(ix)
			add(ix + 1)
			add(ix &^ 63)
			add(ix | 63)
			add((ix | 63) + 1)
			add((ix &^ 63) + 64)
		}
		for _, p := range c.Probe {
			if span > 0 {
				add(((p % span) + span) % span)
			}
		}
		add(0)
		add(span - 1)
	}
	emptyWordProbe := false
	checkAll := func(what string, base *array.Base, get func(int32) (interface{}, bool)) error {
		return guard(what, func() error {
			for _, p := range probes {
				raw, present := model[p]
				// typed accessor
				v, ok := get(p)
				if ok != present {
					return viol("array-get", "%s: typed Get(%d) found=%v, model present=%v", what, p, ok, present)
				}
				if present && !reflect.DeepEqual(v, eltOf(kind, raw)) {
					return viol("array-get", "%s: typed Get(%d) = %v, want %v", what, p, v, eltOf(kind, raw))
				}
				if !present && v != nil && !reflect.DeepEqual(v, reflect.Zero(reflect.TypeOf(eltOf(kind, 0))).Interface()) {
					return viol("array-get", "%s: typed Get(%d) = (%v,false), want the zero value", what, p, v)
				}
				// raw bytes accessor
				bs, ok := base.GetBytes(p, ta.width)
				if ok != present {
					return viol("array-getbytes", "%s: GetBytes(%d) found=%v, model present=%v", what, p, ok, present)
				}
				if present && string(bs) != string(eltBytes(kind, raw)) {
					return viol("array-getbytes", "%s: GetBytes(%d) = %x, want %x", what, p, bs, eltBytes(kind, raw))
				}
				if !present && bs != nil {
					return viol("array-getbytes", "%s: GetBytes(%d) = (%x,false), want nil", what, p, bs)
				}
			}
			return nil
		})
	}
	if err := checkAll("fresh "+kind, ta.base, ta.get); err != nil {
		return err
	}
	// generic accessor through Base.Get with an element encoder
	if ta.base.EltEncoder != nil {
		err := guard("generic Base.Get", func() error {
			for _, p := range probes {
				raw, present := model[p]
				v, ok := ta.base.Get(p)
				if ok != present || (present && !reflect.DeepEqual(v, eltOf(kind, raw))) {
					return viol("array-generic-get", "Base.Get(%d) = (%v,%v), model (%v,%v)", p, v, ok, eltOf(kind, raw), present)
				}
			}
			return nil
		})
		if err != nil {
			return err
		}
	}
	// serialization round trip into the typed type
	var data []byte
	err = guard("proto.Marshal of an array", func() error {
		var e error
		data, e = proto.Marshal(ta.msg)
		if e != nil {
			return viol("array-marshal", "proto.Marshal failed: %v", e)
		}
		return nil
	})
	if err != nil {
		return err
	}
	msg2, base2, get2 := ta.newEmpty()
	err = guard("proto.Unmarshal of an array", func() error {
		if e := proto.Unmarshal(data, msg2); e != nil {
			return viol("array-unmarshal", "proto.Unmarshal failed: %v", e)
		}
		return nil
	})
	if err != nil {
		return err
	}
	if len(idx) > 0 {
		if err := checkAll("reloaded "+kind, base2, get2); err != nil {
			return err
		}
	}
	// ... and into the generic array type
	if len(idx) > 0 {
		gen, e := genericEmpty(kind)
		if e != nil {
			return viol("array-newempty", "NewEmpty(%T) failed: %v", eltOf(kind, 0), e)
		}
		err = guard("proto.Unmarshal into the generic array", func() error {
			if e := proto.Unmarshal(data, gen); e != nil {
				return viol("array-unmarshal", "proto.Unmarshal into generic array failed: %v", e)
			}
			for _, p := range probes {
				raw, present := model[p]
				v, ok := gen.Get(p)
				if ok != present || (present && !reflect.DeepEqual(v, eltOf(kind, raw))) {
					return viol("array-generic-get", "generic Get(%d) after reload = (%v,%v), model (%v,%v)", p, v, ok, eltOf(kind, raw), present)
				}
			}
			return nil
		})
		if err != nil {
			return err
		}
	}
	// non-trivial: an empty word between populated words, and a probe in the word after it
	words := ta.base.Bitmaps
	for i := 1; i+1 < len(words); i++ {
		if words[i] == 0 && words[i+1] != 0 {
			populatedBefore := false
			for j := 0; j < i; j++ {
				if words[j] != 0 {
					populatedBefore = true
				}
			}
			if populatedBefore {
				emptyWordProbe = true
			}
		}
	}
	if emptyWordProbe {
		s.class("empty_word_between_populated_words")
	}
	switch {
	case len(idx) == 0:
		s.class("layout=empty")
	case len(idx) == 1:
		s.class("layout=single")
	case int(span) <= 2*len(idx):
		s.class("layout=dense")
	default:
		s.class("layout=sparse")
	}
	s.calls(5 * len(probes))
	s.done(c, emptyWordProbe, kind)
	return nil
}

func safeSnapshot(ta *typedArray, span int32) (string, error) {
	var out string
	err := guard("reading every index of an array", func() error {
		out = fmt.Sprintf("%v", snapshotArray(ta, span))
		return nil
	})
	return out, err
}

func snapshotArray(ta *typedArray, span int32) []string {
	var out []string
	for i := int32(0); i < span && i < int32(len(ta.base.Bitmaps)*64); i++ {
		v, ok := ta.get(i)
		if ok {
			out = append(out, fmt.Sprintf("%d=%v", i, v))
		}
	}
	out = append(out, fmt.Sprintf("cnt=%d words=%d elts=%d", ta.base.Cnt, len(ta.base.Bitmaps), len(ta.base.Elts)))
	return out
}
