package props

import (
	"fmt"
	"hash/fnv"
	"testing"
)

// Regular sweep: deterministic two- and three-level tries whose node counts run
// through every value of a range, so that the packed label bitmaps end at every
// offset of a 64-bit word — with 257-bit nodes, 17-bit nodes and table-compressed
// short nodes as the LAST node, and with the top label (0xff / 0xf) set or not.
// Several seeded changes read one word past a bitmap only in such a shape.

type regularSpec struct {
	name string
	keys []string
}

func regularSpecs() []regularSpec {
	var out []regularSpec
	maxF := 70
	if thorough() {
		maxF = 140
	}
	// second-level label sets: how many children every first-level branch has, and whether they sit at the top or bottom of the byte range
	type second struct {
		g   int
		top bool
	}
	seconds := []second{{1, true}, {2, true}, {2, false}, {3, true}, {10, true}, {11, true}, {11, false}, {12, true}, {16, true}}
	for f := 1; f <= maxF; f++ {
		for _, sc := range seconds {
			var keys []string
			for i := 0; i < f; i++ {
				// first bytes: spread over the byte range, always including 0xff for the last branch
				first := byte((i * 255) / maxInt(f-1, 1))
				if f == 1 {
					first = 0xff
				}
				for j := 0; j < sc.g; j++ {
					var b byte
					if sc.top {
						b = byte(0xff - j)
					} else {
						b = byte(j)
					}
					keys = append(keys, string([]byte{first, b}))
				}
			}
			out = append(out, regularSpec{fmt.Sprintf("f=%d,g=%d,top=%v", f, sc.g, sc.top), uniqSorted(keys)})
		}
	}
	// fan-outs of consecutive bytes inside (or across) one 16-byte block: 257-bit nodes whose labels share a high nibble
	for _, start := range []int{0x00, 0x05, 0x60, 0x61, 0xf0, 0xf5, 0x7a} {
		for f := 10; f <= 17; f++ {
			for _, g := range []int{1, 2, 11} {
				var keys []string
				for i := 0; i < f && start+i < 256; i++ {
					for j := 0; j < g; j++ {
						keys = append(keys, string([]byte{byte(start + i), byte(0x30 + j)}))
					}
				}
				out = append(out, regularSpec{fmt.Sprintf("block start=%#x,f=%d,g=%d", start, f, g), uniqSorted(keys)})
			}
		}
	}
	// nibble-level regular trees: f first nibbles x g second nibbles (17-bit and short nodes only)
	for f := 1; f <= 16; f++ {
		for g := 1; g <= 16; g++ {
			var keys []string
			for i := 0; i < f; i++ {
				for j := 0; j < g; j++ {
					keys = append(keys, string([]byte{byte(0xf-i)<<4 | byte(0xf-j)}))
				}
			}
			out = append(out, regularSpec{fmt.Sprintf("nibbles f=%d,g=%d", f, g), uniqSorted(keys)})
		}
	}
	return out
}

func maxInt(a, b int) int {
	if a > b {
		return a
	}
	return b
}

// runRegularSweep runs a property's own check on every regular shape.
func runRegularSweep(t *testing.T, prop string, opts []OptSpec, prep func(c *Case), check func(c *Case, s *Stats) error) {
	st := newStats(prop)
	defer st.write()
	shard, nshards := envInt("VERIF_SHARD", 0), envInt("VERIF_NSHARDS", 1)
	loads := []string{"", "reload"}
	for i, sp := range regularSpecs() {
		if i%nshards != shard {
			continue
		}
		for oi, o := range opts {
			c := &Case{Prop: prop, Gen: "regular:" + sp.name, Keys: hexes(sp.keys), Enc: "I32", HasVals: true, Opt: o, Load: loads[(i+oi)%2]}
			for j := range sp.keys {
				c.Vals = append(c.Vals, Hex(leBytes(uint64(j+1), 4)))
			}
			c.Win = len(sp.keys) - 1
			if prep != nil {
				prep(c)
			}
			sub := newStats(prop)
			if err := check(c, sub); err != nil {
				if _, ok := err.(*violation); !ok {
					t.Fatalf("HARNESS ERROR: %v", err)
				}
				path := writeReplay(prop, c)
				fmt.Printf("VIOLATION property=%s replay=%s\n", prop, path)
				fmt.Printf("DETAIL property=%s regular shape %s: %s\n", prop, sp.name, oneLine(err.Error()))
				t.Fatalf("%s violated on regular shape %s: %v", prop, sp.name, err)
			}
			st.calls(int(sub.Calls))
			h := fnv.New64a()
			fmt.Fprintf(h, "%s/%d", sp.name, oi)
			st.doneHash(h.Sum64(), len(sp.keys) >= 2)
			for k, v := range sub.Classes {
				if k == "big_nodes>0" || k == "big_nodes>1" || (len(k) > 10 && k[:10] == "short_size") {
					st.classN("regular:"+k, v)
				}
			}
		}
		if i%97 == 0 {
			st.addSample(map[string]interface{}{"gen": "regular", "shape": sp.name, "keys": len(sp.keys)})
		}
	}
	st.Exhaustive["regular sweep (first-level fan-out x second-level label set x options)"] = int64(st.Evaluations)
}

var filterAndComplete = []OptSpec{{0, 0, 0, 0}, {0, 0, 0, 2}}
var completeOnly = []OptSpec{{0, 0, 0, 2}}

func TestC01Regular(t *testing.T) { runRegularSweep(t, "C01", filterAndComplete, nil, checkC01) }
func TestC02Regular(t *testing.T) { runRegularSweep(t, "C02", filterAndComplete, nil, checkC02) }
func TestC03Regular(t *testing.T) { runRegularSweep(t, "C03", completeOnly, nil, checkC03) }
func TestC04Regular(t *testing.T) {
	runRegularSweep(t, "C04", completeOnly, func(c *Case) {
		last := c.Keys[len(c.Keys)-1]
		c.Scans = []ScanSpec{
			{API: "from", Start: "", InclStart: true, WithValue: true, Stop: -1},
			{API: "iter", Start: last, InclStart: true, WithValue: false, Stop: -1},
			{API: "fromto", Start: c.Keys[len(c.Keys)/2], InclStart: false, End: last, InclEnd: true, WithValue: true, Stop: -1},
		}
	}, checkC04)
}
func TestC09Regular(t *testing.T) { runRegularSweep(t, "C09", filterAndComplete, nil, checkC09) }
func TestC10Regular(t *testing.T) { runRegularSweep(t, "C10", filterAndComplete, nil, checkC10) }
func TestC18Regular(t *testing.T) { runRegularSweep(t, "C18", filterAndComplete, nil, checkC18) }
func TestC19Regular(t *testing.T) { runRegularSweep(t, "C19", filterAndComplete, nil, checkC19) }
func TestC12Regular(t *testing.T) {
	runRegularSweep(t, "C12", []OptSpec{{0, 0, 0, 0}}, func(c *Case) {
		c.Block = 1 + len(c.Keys)%3
		c.Ints = []int64{5, 7, 11}
	}, checkC12)
}
