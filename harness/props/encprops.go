package props

import (
	"bytes"
	"encoding/binary"
	"fmt"
	"math"
	"reflect"
	"runtime"
	"sync"

	"github.com/openacid/slim/encode"
)

// ---------------------------------------------------------------------------
// C15: value encoders.

type intCodec struct {
	name  string
	enc   encode.Encoder
	width int
	conv  func(uint64) interface{}
}

var intCodecs = map[string]intCodec{
	"I8":  {"I8", encode.I8{}, 1, func(v uint64) interface{} { return int8(v) }},
	"I16": {"I16", encode.I16{}, 2, func(v uint64) interface{} { return int16(v) }},
	"I32": {"I32", encode.I32{}, 4, func(v uint64) interface{} { return int32(v) }},
	"I64": {"I64", encode.I64{}, 8, func(v uint64) interface{} { return int64(v) }},
	"U16": {"U16", encode.U16{}, 2, func(v uint64) interface{} { return uint16(v) }},
	"U32": {"U32", encode.U32{}, 4, func(v uint64) interface{} { return uint32(v) }},
	"U64": {"U64", encode.U64{}, 8, func(v uint64) interface{} { return uint64(v) }},
	"Int": {"Int", encode.Int{}, nativeIntBytes, nativeInt},
}

// encLaw checks the encoder laws for one value whose reference encoding is known.
func encLaw(name string, e encode.Encoder, v interface{}, ref []byte, junk []byte, wantDecoded interface{}) error {
	var verr error
	err := guard(name+" encoder", func() error {
		enc := e.Encode(v)
		if !bytes.Equal(enc, ref) {
			verr = viol("layout", "%s.Encode(%v) = %x, reference layout is %x", name, v, enc, ref)
			return nil
		}
		if sz := e.GetSize(v); sz != len(enc) {
			verr = viol("size", "%s.GetSize(%v) = %d but Encode produced %d bytes", name, v, sz, len(enc))
			return nil
		}
		withJunk := append(append([]byte{}, enc...), junk...)
		if sz := e.GetEncodedSize(withJunk); sz != len(enc) {
			verr = viol("size", "%s.GetEncodedSize(enc++junk) = %d, want %d (value %v)", name, sz, len(enc), v)
			return nil
		}
		n, d := e.Decode(withJunk)
		if n != len(enc) {
			verr = viol("consumed", "%s.Decode consumed %d bytes, want %d (value %v)", name, n, len(enc), v)
			return nil
		}
		if !valEq(d, wantDecoded) {
			verr = viol("roundtrip", "%s.Decode(Encode(%v)) = %v (%T)", name, v, d, d)
			return nil
		}
		if len(junk) > 0 && !bytes.Equal(withJunk[:len(enc)], ref) {
			verr = viol("mutated", "%s.Decode modified its input", name)
			return nil
		}
		// The encoding belongs to the caller: it frames it in place (append) and
		// recycles it (overwrite). Later encodings must not notice (C15-g: results
		// cut out of a shared table with spare capacity).
		framed := append(enc, 0xa5, 0x5a, 0xa5, 0x5a, 0xa5, 0x5a, 0xa5, 0x5a, 0xa5)
		for i := range framed {
			framed[i] ^= 0xff
		}
		for i := range enc {
			enc[i] = 0xee
		}
		if again := e.Encode(v); !bytes.Equal(again, ref) {
			verr = viol("encoding-overwritten", "%s.Encode(%v) = %x after the caller appended to and overwrote an earlier result of Encode; reference layout is %x", name, v, again, ref)
		}
		return nil
	})
	if err != nil {
		return err
	}
	return verr
}

func intLaw(kind string, raw uint64, junk []byte) error {
	ic := intCodecs[kind]
	return encLaw(kind, ic.enc, ic.conv(raw), leBytes(raw, ic.width), junk, ic.conv(raw))
}

// --- TypeEncoder reference: field by field in the configured byte order ---

type te1 struct {
	A uint16
	B [3]int8
	C int32
}
type te2inner struct {
	P uint8
	Q int16
}
type te2 struct {
	X int64
	Y [2]uint32
	Z te2inner
}
type te3 struct {
	M [2][2]int16
	U uint64
	V int8
}

// non-struct element types: named scalars, a plain scalar, an array, a float
type teDur int64
type teID uint16
type teArr [3]uint16

// te4 has blank (reserved / padding) fields, top-level and nested: encoding/binary
// writes them as zero bytes and skips them when reading; they occupy their bytes.
type te4 struct {
	Kind uint8
	_    [3]byte
	Off  uint32
	_    uint16
	In   struct {
		A int16
		_ int16
	}
}

const teKinds = 18

// every plain builtin fixed-size scalar kind that encoding/binary supports
var teScalars = []struct {
	zero, ptr interface{}
	w         int
	conv      func(uint64) interface{}
}{
	8:  {uint8(0), new(uint8), 1, func(x uint64) interface{} { return uint8(x) }},
	9:  {uint16(0), new(uint16), 2, func(x uint64) interface{} { return uint16(x) }},
	10: {uint32(0), new(uint32), 4, func(x uint64) interface{} { return uint32(x) }},
	11: {uint64(0), new(uint64), 8, func(x uint64) interface{} { return uint64(x) }},
	12: {int8(0), new(int8), 1, func(x uint64) interface{} { return int8(x) }},
	13: {int16(0), new(int16), 2, func(x uint64) interface{} { return int16(x) }},
	14: {int64(0), new(int64), 8, func(x uint64) interface{} { return int64(x) }},
	15: {float64(0), new(float64), 8, func(x uint64) interface{} { return math.Float64frombits(x) }},
	16: {false, new(bool), 1, func(x uint64) interface{} { return x&1 == 1 }},
}

func putOrd(b []byte, v uint64, w int, big bool) []byte {
	for i := 0; i < w; i++ {
		sh := uint(8 * i)
		if big {
			sh = uint(8 * (w - 1 - i))
		}
		b = append(b, byte(v>>sh))
	}
	return b
}

// typeEncCase builds the value and its reference encoding from payload bytes.
func typeEncCase(which int, p []byte, big bool) (interface{}, []byte) {
	r := sm64{le(p, 8) ^ uint64(len(p))}
	nx := func() uint64 {
		if len(p) >= 8 {
			v := le(p, 8)
			p = p[8:]
			return v
		}
		return r.next()
	}
	if k := which % teKinds; k >= 8 && k < len(teScalars) {
		sc := teScalars[k]
		x := nx()
		switch k {
		case 15: // keep away from NaN: NaN != NaN
			if x&0x7ff0000000000000 == 0x7ff0000000000000 {
				x &^= 0x0010000000000000
			}
		case 16:
			x &= 1
		}
		if sc.w < 8 {
			x &= 1<<(8*uint(sc.w)) - 1
		}
		return sc.conv(x), putOrd(nil, x, sc.w, big)
	}
	switch which % teKinds {
	case 17:
		k, off, a := nx(), nx(), nx()
		v := te4{Kind: uint8(k), Off: uint32(off)}
		v.In.A = int16(a)
		ref := []byte{byte(k), 0, 0, 0}
		ref = putOrd(ref, off&0xffffffff, 4, big)
		ref = append(ref, 0, 0)
		ref = putOrd(ref, a&0xffff, 2, big)
		ref = append(ref, 0, 0)
		return v, ref
	case 0:
		a, b0, b1, b2, c := nx(), nx(), nx(), nx(), nx()
		v := te1{A: uint16(a), B: [3]int8{int8(b0), int8(b1), int8(b2)}, C: int32(c)}
		var ref []byte
		ref = putOrd(ref, a, 2, big)
		ref = append(ref, byte(b0), byte(b1), byte(b2))
		ref = putOrd(ref, c, 4, big)
		return v, ref
	case 1:
		x, y0, y1, pp, qq := nx(), nx(), nx(), nx(), nx()
		v := te2{X: int64(x), Y: [2]uint32{uint32(y0), uint32(y1)}, Z: te2inner{P: uint8(pp), Q: int16(qq)}}
		var ref []byte
		ref = putOrd(ref, x, 8, big)
		ref = putOrd(ref, y0, 4, big)
		ref = putOrd(ref, y1, 4, big)
		ref = append(ref, byte(pp))
		ref = putOrd(ref, qq, 2, big)
		return v, ref
	case 3:
		x := nx()
		return teDur(int64(x)), putOrd(nil, x, 8, big)
	case 4:
		x := nx()
		return teID(uint16(x)), putOrd(nil, x, 2, big)
	case 5:
		a, b, c := nx(), nx(), nx()
		var ref []byte
		for _, m := range []uint64{a, b, c} {
			ref = putOrd(ref, m, 2, big)
		}
		return teArr{uint16(a), uint16(b), uint16(c)}, ref
	case 6:
		x := nx()
		return int32(x), putOrd(nil, x, 4, big)
	case 7:
		x := nx() & 0x7fbfffff // keep away from NaN payloads: NaN != NaN
		if x&0x7f800000 == 0x7f800000 {
			x &^= 0x00800000
		}
		return math.Float32frombits(uint32(x)), putOrd(nil, x&0xffffffff, 4, big)
	default:
		m0, m1, m2, m3, u, vv := nx(), nx(), nx(), nx(), nx(), nx()
		v := te3{M: [2][2]int16{{int16(m0), int16(m1)}, {int16(m2), int16(m3)}}, U: u, V: int8(vv)}
		var ref []byte
		for _, m := range []uint64{m0, m1, m2, m3} {
			ref = putOrd(ref, m, 2, big)
		}
		ref = putOrd(ref, u, 8, big)
		ref = append(ref, byte(vv))
		return v, ref
	}
}

// typeEncoderFor builds the encoder through one of the documented constructors:
// ctor 0: NewTypeEncoderEndian(value), 1: NewTypeEncoderEndian(pointer),
// 2: NewTypeEncoderEndianByType, 3: NewTypeEncoder (little-endian default; only when !big).
func typeEncoderFor(which int, big bool, ctor int) (encode.Encoder, error) {
	var zero, ptr interface{}
	switch k := which % teKinds; k {
	case 8, 9, 10, 11, 12, 13, 14, 15, 16:
		zero, ptr = teScalars[k].zero, teScalars[k].ptr
	case 17:
		zero, ptr = te4{}, &te4{}
	case 0:
		zero, ptr = te1{}, &te1{}
	case 1:
		zero, ptr = te2{}, &te2{}
	case 3:
		zero, ptr = teDur(0), new(teDur)
	case 4:
		zero, ptr = teID(0), new(teID)
	case 5:
		zero, ptr = teArr{}, &teArr{}
	case 6:
		zero, ptr = int32(0), new(int32)
	case 7:
		zero, ptr = float32(0), new(float32)
	default:
		zero, ptr = te3{}, &te3{}
	}
	var ord binary.ByteOrder = binary.LittleEndian
	if big {
		ord = binary.BigEndian
	}
	switch ctor % 4 {
	case 1:
		return encode.NewTypeEncoderEndian(ptr, ord)
	case 2:
		return encode.NewTypeEncoderEndianByType(reflect.TypeOf(zero), ord)
	case 3:
		if !big {
			return encode.NewTypeEncoder(zero)
		}
	}
	return encode.NewTypeEncoderEndian(zero, ord)
}

// ptrTo returns a pointer to a copy of the struct value v.
func ptrTo(v interface{}) interface{} {
	p := reflect.New(reflect.TypeOf(v))
	p.Elem().Set(reflect.ValueOf(v))
	return p.Interface()
}

type encItem struct {
	name string
	e    encode.Encoder
	v    interface{}
	ref  []byte
	want interface{}
}

// batchLaw: encode ALL values first, keep the results, then check every kept
// encoding. A later Encode call must not change an earlier result (encodings are
// appended to streams, arrays and leaf buffers by their callers).
func batchLaw(items []encItem) error {
	if len(items) < 2 {
		return nil
	}
	var verr error
	err := guard("a batch of Encode calls", func() error {
		encs := make([][]byte, len(items))
		for i, it := range items {
			encs[i] = it.e.Encode(it.v)
		}
		for i, it := range items {
			if !bytes.Equal(encs[i], it.ref) {
				verr = viol("encoding-overwritten", "%s: the encoding of value #%d (%v) read %x after %d later Encode calls, reference layout is %x", it.name, i, it.v, encs[i], len(items)-1-i, it.ref)
				return nil
			}
			n, d := it.e.Decode(encs[i])
			if n != len(it.ref) || !valEq(d, it.want) {
				verr = viol("encoding-overwritten", "%s: Decode of the kept encoding of value #%d gives (%d,%v), want (%d,%v)", it.name, i, n, d, len(it.ref), it.want)
				return nil
			}
		}
		return nil
	})
	if err != nil {
		return err
	}
	return verr
}

// sharedEncoderLaw: one encoder value used by several goroutines at once, each
// round-tripping its own value (an encoder is held by a trie and used by all of
// its readers). Stateless encoders cannot fail this; the schedule is sampled.
func sharedEncoderLaw(items []encItem) error {
	if len(items) < 2 {
		return nil
	}
	n := len(items)
	if n > 6 {
		n = 6
	}
	errs := make([]error, n)
	var wg sync.WaitGroup
	start := make(chan struct{})
	for g := 0; g < n; g++ {
		g := g
		it := items[g]
		wg.Add(1)
		go func() {
			defer wg.Done()
			<-start
			errs[g] = guard("concurrent use of one encoder", func() error {
				for r := 0; r < 300; r++ {
					enc := it.e.Encode(it.v)
					if !bytes.Equal(enc, it.ref) {
						return viol("shared-encoder", "%s: Encode(%v) = %x while other goroutines use the same encoder, reference layout is %x", it.name, it.v, enc, it.ref)
					}
					k, d := it.e.Decode(enc)
					if k != len(it.ref) || !valEq(d, it.want) {
						return viol("shared-encoder", "%s: Decode(Encode(%v)) = (%d,%v) while other goroutines use the same encoder", it.name, it.v, k, d)
					}
					if r%16 == 0 {
						runtime.Gosched()
					}
				}
				return nil
			})
		}()
	}
	close(start)
	wg.Wait()
	for _, e := range errs {
		if e != nil {
			return e
		}
	}
	return nil
}

// checkC15: c.Kind names the codec; c.Ints are raw integer values, c.Vals string/byte payloads.
func checkC15(c *Case, s *Stats) error {
	junk := []byte(c.Junk)
	nt := false
	var items []encItem
	switch {
	case intCodecs[c.Kind].enc != nil:
		w := intCodecs[c.Kind].width
		for _, v := range c.Ints {
			raw := uint64(v)
			if w < 8 {
				raw &= (1 << (8 * uint(w))) - 1
			}
			if err := intLaw(c.Kind, raw, junk); err != nil {
				return err
			}
			ic := intCodecs[c.Kind]
			items = append(items, encItem{c.Kind, ic.enc, ic.conv(raw), leBytes(raw, ic.width), ic.conv(raw)})
			// the encoders handed out by the selection helpers obey the same law
			if c.Kind == "U16" || c.Kind == "U32" || c.Kind == "U64" {
				val := ic.conv(raw)
				sl := reflect.MakeSlice(reflect.SliceOf(reflect.TypeOf(val)), 1, 1)
				sl.Index(0).Set(reflect.ValueOf(val))
				e1, err1 := encode.EncoderOf(val)
				e2, err2 := encode.GetSliceEltEncoder(sl.Interface())
				e3, err3 := encode.EncoderByKind(reflect.TypeOf(val).Kind())
				if err1 != nil || err2 != nil || err3 != nil {
					return viol("encoder-selection", "no encoder for %T: EncoderOf: %v, GetSliceEltEncoder: %v, EncoderByKind: %v", val, err1, err2, err3)
				}
				for hi, he := range []encode.Encoder{e1, e2, e3} {
					if err := encLaw(fmt.Sprintf("%s (selected by helper %d)", c.Kind, hi), he, val, leBytes(raw, ic.width), junk, val); err != nil {
						return err
					}
				}
			}
			if raw>>(8*uint(w)-1)&1 == 1 {
				nt = true
			}
		}
		s.calls(4 * len(c.Ints))
	case c.Kind == "String16":
		for _, p := range c.Vals {
			str := string(p)
			ref := append([]byte{byte(len(str) >> 8), byte(len(str))}, str...)
			if err := encLaw("String16", encode.String16{}, str, ref, junk, str); err != nil {
				return err
			}
			items = append(items, encItem{"String16", encode.String16{}, str, ref, str})
			if len(str) >= 256 {
				nt = true
			}
		}
		s.calls(4 * len(c.Vals))
	case c.Kind == "Bytes":
		for _, p := range c.Vals {
			if len(p) == 0 {
				continue
			}
			b := []byte(p)
			if err := encLaw(fmt.Sprintf("Bytes{%d}", len(b)), encode.Bytes{Size: len(b)}, b, b, junk, b); err != nil {
				return err
			}
			if len(b) >= 256 || b[0] >= 0x80 {
				nt = true
			}
		}
		s.calls(4 * len(c.Vals))
	case c.Kind == "Dummy":
		// Dummy documents: encodes to nothing, Decode returns nil. Sizes only.
		for _, v := range c.Ints {
			if err := encLaw("Dummy", encode.Dummy{}, int32(v), []byte{}, junk, nil); err != nil {
				return err
			}
			// Dummy has an exported Size field. Whatever a Dummy{Size: k} encodes to
			// (the layout is not demanded here), the four size views must agree and
			// the value decodes to nil.
			d := encode.Dummy{Size: int(uint64(v) % 70)}
			var enc []byte
			if err := guard("Dummy encoder", func() error { enc = d.Encode(int32(v)); return nil }); err != nil {
				return err
			}
			if err := encLaw(fmt.Sprintf("Dummy{Size:%d}", d.Size), d, int32(v), enc, junk, nil); err != nil {
				return err
			}
		}
		nt = len(junk) > 0
		s.calls(4 * len(c.Ints))
	case c.Kind == "TypeEnc":
		// ONE encoder for all values of the case (as a trie or an array holds one)
		which := c.Block
		big := c.Scrib&1 == 1
		ctor := c.Scrib >> 2
		e, err := typeEncoderFor(which, big, ctor)
		if err != nil {
			return viol("type-encoder", "TypeEncoder constructor %d rejected a fixed-size type: %v", ctor%4, err)
		}
		for _, p := range c.Vals {
			v, ref := typeEncCase(which, []byte(p), big)
			var arg interface{} = v
			if c.Scrib&2 == 2 {
				arg = ptrTo(v) // a pointer to the struct is in the encoder's domain too; Decode yields the value
			}
			if err := encLaw(fmt.Sprintf("TypeEncoder(%T,big=%v,ctor=%d)", arg, big, ctor%4), e, arg, ref, junk, v); err != nil {
				return err
			}
			items = append(items, encItem{fmt.Sprintf("TypeEncoder(%T,big=%v)", arg, big), e, arg, ref, v})
			if !reflect.DeepEqual(e.GetSize(v), len(ref)) {
				return viol("size", "TypeEncoder size mismatch")
			}
			if len(ref) > 0 && ref[0] >= 0x80 {
				nt = true
			}
		}
		s.calls(4 * len(c.Vals))
	default:
		return fmt.Errorf("unknown C15 kind %q", c.Kind)
	}
	if err := batchLaw(items); err != nil {
		return err
	}
	if err := sharedEncoderLaw(items); err != nil {
		return err
	}
	if len(items) >= 2 {
		s.class("batch_of_encodings_checked")
	}
	s.class("codec=" + c.Kind)
	if len(junk) > 0 {
		s.class("with_trailing_junk")
	}
	s.done(c, nt, c.Kind)
	return nil
}
