package props

import (
	"fmt"
	"os"
	"path/filepath"
	"strings"
	"testing"

	"github.com/openacid/testkeys"
	"pgregory.net/rapid"
)

// ---- C05 ----

func genPoolCase(t *rapid.T, enc string, sizeClass int) *Case {
	c := &Case{Enc: enc}
	var keys []string
	switch sizeClass {
	case 0:
		keys = nil
	case 1:
		keys = genK1(t, 12)
	default:
		fams := []famWeight{{"K1", 3}, {"K2", 3}, {"K3", 2}, {"K5", 1}, {"K6", 1}, {"Krand", 1}}
		keys, c.Gen = genKeysFam(t, fams, sizeCap{small: 300, big: 3000, huge: 3000})
	}
	c.Keys = hexes(keys)
	c.Opt = genOpt(t)
	c.HasVals = rapid.IntRange(0, 3).Draw(t, "hasvals") != 0
	if c.HasVals {
		c.Vals, c.VMode = genVals(t, len(keys), enc, false)
	}
	if len(keys) > 0 {
		c.Win = rapid.IntRange(0, len(keys)-1).Draw(t, "win")
	}
	return c
}

func genHistory(t *rapid.T) *Case {
	c := &Case{Gen: "history"}
	c.Enc = fixedEncNames[pickU(t, "enc", len(fixedEncNames))]
	if pickU(t, "str16", 6) == 0 {
		c.Enc = "String16"
	}
	np := rapid.IntRange(2, 4).Draw(t, "npool")
	for i := 0; i < np; i++ {
		pc := genPoolCase(t, c.Enc, pickU(t, "sizeclass", 4))
		if c.Enc != "String16" && pickU(t, "legacy?", 4) == 0 {
			forceLegacy(t, pc)
		}
		c.Pool = append(c.Pool, pc)
	}
	c.Scrib = rapid.IntRange(0, 1).Draw(t, "startbuilt") | rapid.IntRange(0, 1).Draw(t, "reusedbuffer")<<1
	if rapid.Bool().Draw(t, "twinstream") && len(c.Pool) > 0 {
		// a second stream of EXACTLY the same length: same keys and options, other fixed-size values
		src := c.Pool[pickU(t, "twinof", len(c.Pool))]
		if src.HasVals && encSpecs[c.Enc].width > 0 && !isLegacyLoad(src) {
			tw := *src
			tw.Vals = make([]Hex, len(src.Vals))
			for i, v := range src.Vals {
				b := []byte(v)
				if len(b) == 0 {
					b = []byte{0}
				}
				b = append([]byte{}, b...)
				b[0] ^= 0x55
				tw.Vals[i] = Hex(b)
			}
			c.Pool = append(c.Pool, &tw)
			np = len(c.Pool)
		}
	}
	n := rapid.IntRange(1, 6).Draw(t, "nhist")
	ops := []string{"unmarshal", "unmarshal", "unmarshal", "proto", "reset", "trunc", "badver"}
	for i := 0; i < n; i++ {
		op := HistOp{Op: ops[pickU(t, "op", len(ops))], Stream: pickU(t, "stream", np)}
		if op.Op == "trunc" {
			op.Cut = rapid.IntRange(0, 1<<20).Draw(t, "cut")
		}
		c.Hist = append(c.Hist, op)
	}
	return c
}

func TestC05(t *testing.T) {
	runProp(t, "C05", checkC05, func(t *rapid.T) *Case {
		if pickU(t, "history?", 4) == 0 {
			return genHistory(t)
		}
		c := genTrieCase(t, trieGenOpt{})
		c.Load = []string{"reload", "proto", "over"}[pickU(t, "via", 3)]
		genExtra(t, c)
		return c
	})
}
func TestReplayC05(t *testing.T) { runReplay(t, "C05", checkC05) }

// ---- C06 ----

var legacyFams = []famWeight{{"K1", 25}, {"K2", 20}, {"K3", 10}, {"K4", 10}, {"K5", 10}, {"K6", 8}, {"K7", 7}, {"Krand", 10}}

// genLegacyCase draws a case that one of the historical layouts can express.
func genLegacyCase(t *rapid.T) *Case {
	c := genTrieCase(t, trieGenOpt{encs: fixedEncNames, fams: legacyFams})
	if pickU(t, "emptykeyroot", 12) == 0 && len(c.Keys) > 100 && c.Keys[0] != "" {
		c.Keys = append([]Hex{""}, c.Keys...)
		if c.HasVals {
			c.Vals = append([]Hex{Hex(leBytes(0xfffe, c.spec().width))}, c.Vals...)
		}
	}
	c.Load = ""
	for try := 0; c.Load == "" || c.Load == "reload" || c.Load == "proto" || c.Load == "over"; try++ {
		forceLegacy(t, c)
		if try > 8 {
			// the key set cannot be encoded by the old three-section writers: use the 0.5.10 layout
			c.Opt = OptSpec{c.Opt[0], 0, 0, 0}
			c.Load = "0.5.10"
		}
	}
	if isLegacy3(c.Load) && pickU(t, "hdr?", 3) == 0 {
		c.Ver = Hex(compatibleHeaders3[pickU(t, "hdr", 3)])
	}
	return c
}

func TestC06(t *testing.T) {
	runProp(t, "C06", legacyLiveCheck(checkC06), func(t *rapid.T) *Case {
		c := genLegacyCase(t)
		genExtra(t, c)
		// two-object history: another legacy stream is loaded first and stays alive
		if pickU(t, "earlier-legacy?", 4) == 0 {
			c.Earlier = genLegacyCase(t)
		}
		return c
	})
}
func TestReplayC06(t *testing.T) { runReplay(t, "C06", legacyLiveCheck(checkC06)) }

// TestC06Fidelity is the self-test of the re-implemented legacy writers: they
// must reproduce the archived files byte for byte. It is not a violation
// condition (DESIGN.md 3.5); the result goes into the evidence.
func TestC06Fidelity(t *testing.T) {
	st := newStats("C06")
	defer st.write()
	repo := os.Getenv("VERIF_REPO")
	if repo == "" {
		repo = "/repo"
	}
	same, diff, _, diffs := legacyFidelity(repo)
	st.Notes["writer_fidelity"] = fmt.Sprintf("%d/%d archived files reproduced byte-for-byte by the re-implemented writers", same, same+diff)
	if diff > 0 {
		st.Notes["writer_fidelity_differences"] = strings.Join(diffs, " ")
	}
	t.Logf("writer fidelity: %d identical, %d different %v", same, diff, diffs)
}

// TestC06Archive loads every archived file itself and checks it against the model.
func TestC06Archive(t *testing.T) {
	st := newStats("C06")
	defer st.write()
	repo := os.Getenv("VERIF_REPO")
	if repo == "" {
		repo = "/repo"
	}
	files, _ := filepath.Glob(filepath.Join(repo, "trie", "testdata", "slimtrie-data-*"))
	shard, nshards := envInt("VERIF_SHARD", 0), envInt("VERIF_NSHARDS", 1)
	for i, f := range files {
		if i%nshards != shard {
			continue
		}
		base := strings.TrimPrefix(filepath.Base(f), "slimtrie-data-")
		parts := strings.Split(base, "-")
		name := parts[0]
		if !thorough() && (strings.HasPrefix(name, "50k") || strings.HasPrefix(name, "20k")) && i%4 != 0 {
			continue
		}
		keys := testkeys.Load(name)
		c := &Case{Prop: "C06", Gen: "archive:" + base, Keys: hexes(keys), Enc: "I32", HasVals: true, Opt: OptSpec{0, 0, 0, 0}}
		for j := range keys {
			c.Vals = append(c.Vals, Hex(leBytes(uint64(j), 4)))
		}
		if len(parts) == 3 {
			switch parts[1] {
			case "innpref":
				c.Opt = OptSpec{0, 2, 0, 0}
			case "allpref":
				c.Opt = OptSpec{0, 0, 0, 2}
			}
		}
		b, err := os.ReadFile(f)
		if err != nil {
			t.Fatalf("cannot read %s: %v", f, err)
		}
		m := newModel(c)
		inst := emptyTrie(c)
		err = guard("Unmarshal of archived file "+base, func() error {
			if e := inst.Unmarshal(b); e != nil {
				return viol("legacy-rejected", "archived file %s rejected: %v", base, e)
			}
			for j, k := range m.Keys {
				if v, found := inst.Get(k); !found || !valEq(v, m.Want[j]) {
					return viol("legacy-get", "archived file %s: Get(%s) = (%v,%v), want %v", base, q(k), v, found, m.Want[j])
				}
			}
			if int(inst.Stat().KeyCnt) != len(m.Keys) {
				return viol("legacy-stat", "archived file %s: KeyCnt %d want %d", base, inst.Stat().KeyCnt, len(m.Keys))
			}
			return nil
		})
		if err != nil {
			c.Keys, c.Vals = nil, nil // the file name identifies the case
			path := writeReplay("C06", c)
			fmt.Printf("VIOLATION property=C06 replay=%s\n", path)
			fmt.Printf("DETAIL property=C06 %s\n", oneLine(err.Error()))
			t.Fatalf("%v", err)
		}
		st.class("archived_files_checked")
		st.calls(len(m.Keys))
	}
}

// ---- C07 ----

func genVersion(t *rapid.T) (string, string, bool) {
	n := func(label string) int {
		return rapid.OneOf(rapid.IntRange(0, 12), rapid.SampledFrom([]int{99, 1000, 65536, 2147483647})).Draw(t, label)
	}
	switch pickU(t, "vclass", 10) {
	case 9:
		// a version that collides with a compatible one when the three numbers are
		// packed into one integer with too narrow fields (base b): A.B-k.C+k*b,
		// A-k.B+k*b.C, A-1.B+b-1.C+b
		comp := [][3]uint64{{1, 0, 0}, {0, 5, 8}, {0, 5, 9}, {0, 5, 10}, {0, 5, 11}, {0, 5, 12}}
		bases := []uint64{10, 16, 100, 128, 256, 1000, 1024, 10000, 32768, 65536, 100000, 1 << 20, 1 << 24, 1 << 31, 1 << 32}
		for {
			abc := comp[pickU(t, "aliasof", len(comp))]
			b := bases[pickU(t, "base", len(bases))]
			k := uint64(1 + pickU(t, "k", 2))
			var v string
			switch pickU(t, "borrow", 3) {
			case 0:
				if abc[1] < k {
					continue
				}
				v = fmt.Sprintf("%d.%d.%d", abc[0], abc[1]-k, abc[2]+k*b)
			case 1:
				if abc[0] < k {
					continue
				}
				v = fmt.Sprintf("%d.%d.%d", abc[0]-k, abc[1]+k*b, abc[2])
			default:
				if abc[0] < 1 {
					continue
				}
				v = fmt.Sprintf("%d.%d.%d", abc[0]-1, abc[1]+b-1, abc[2]+b)
			}
			if len(v) > 16 {
				continue
			}
			return v, "numeric-alias", false
		}
	case 8: // a compatible version, a NUL, then garbage in the padding
		base := rapid.SampledFrom([]string{"1.0.0", "0.5.8", "0.5.9", "0.5.10", "0.5.11", "0.5.12"}).Draw(t, "base")
		g := rapid.SliceOfN(rapid.SampledFrom([]byte("0123456789.-+rc\x01\xff")), 1, 16-len(base)-1).Draw(t, "garbage")
		gap := rapid.IntRange(1, 16-len(base)-len(g)).Draw(t, "nuls")
		v := base + strings.Repeat("\x00", gap) + string(g)
		return v, "compatible-NUL-garbage", false
	case 0: // a compatible version: positive control
		return "", "compatible", true
	case 1: // released 0.5.x outside the set, and successors
		v := fmt.Sprintf("0.5.%d", rapid.OneOf(rapid.IntRange(0, 7), rapid.IntRange(13, 40)).Draw(t, "patch"))
		return v, "0.5.x-outside", false
	case 2: // other semver triples
		for {
			v := fmt.Sprintf("%d.%d.%d", n("maj"), n("min"), n("pat"))
			if len(v) > 16 {
				continue
			}
			switch v {
			case "1.0.0", "0.5.8", "0.5.9", "0.5.10", "0.5.11", "0.5.12":
				continue
			}
			return v, "semver-other", false
		}
	case 3: // compatible triple with a pre-release suffix
		base := rapid.SampledFrom([]string{"1.0.0", "0.5.8", "0.5.9", "0.5.10", "0.5.11", "0.5.12"}).Draw(t, "base")
		suf := rapid.SampledFrom([]string{"-rc1", "-0", "-alpha", "-a.b", "-1"}).Draw(t, "suf")
		return base + suf, "prerelease", false
	case 4: // malformed
		v := rapid.SampledFrom([]string{"", "0.5", "v0.5.12", "00.5.12", "0.05.12", " 0.5.12", "0.5.12 ", "0.5.12\x00x",
			"%s%s%s", "%d", "0.5.12.0", "0..12", ".5.12", "0.5.", "1.0", "1", "a.b.c", "0.5.x", "-1.0.0", "+1.0.0", "0.5.１２",
			"0,5,12", "0.5.12\n", "\x000.5.12", "1.0.0.0.0", "0.5.12-", "==0.5.12", "0.5.12||1", "*"}).Draw(t, "mal")
		return v, "malformed", false
	case 5: // 16 bytes without terminator
		b := rapid.SliceOfN(rapid.SampledFrom([]byte("0123456789.-+ax\xff")), 16, 16).Draw(t, "v16")
		return string(b), "16-bytes-no-terminator", false
	case 6: // random bytes
		b := rapid.SliceOfN(rapid.Byte(), 1, 16).Draw(t, "vrand")
		s := strings.TrimRight(string(b), "\x00")
		switch s {
		case "1.0.0", "0.5.8", "0.5.9", "0.5.10", "0.5.11", "0.5.12":
			s = "x" + s
		}
		if len(s) > 16 {
			s = s[:16]
		}
		return s, "random-bytes", false
	default: // newer than the current version
		v := fmt.Sprintf("%d.%d.%d", rapid.IntRange(0, 3).Draw(t, "maj"), rapid.IntRange(6, 30).Draw(t, "min"), rapid.IntRange(0, 20).Draw(t, "pat"))
		return v, "newer", false
	}
}

func TestC07(t *testing.T) {
	runProp(t, "C07", checkC07, func(t *rapid.T) *Case {
		fams := []famWeight{{"K1", 5}, {"K2", 3}, {"K3", 2}, {"K5", 1}}
		c := &Case{}
		keys, fam := genKeysFam(t, fams, sizeCap{small: 60, big: 400, huge: 400})
		c.Gen, c.Keys = fam, hexes(keys)
		c.Enc = fixedEncNames[pickU(t, "enc", len(fixedEncNames))]
		c.Opt = genOpt(t)
		c.HasVals = rapid.IntRange(0, 3).Draw(t, "hasvals") != 0
		if c.HasVals {
			c.Vals, c.VMode = genVals(t, len(keys), c.Enc, false)
		}
		if pickU(t, "legacy?", 3) != 0 {
			forceLegacy(t, c)
		}
		if pickU(t, "kind", 3) == 0 {
			c.Kind = "version"
			v, class, ok := genVersion(t)
			c.Gen = class
			if ok {
				c.Probe = []int32{1}
				switch {
				case isLegacy3(c.Load):
					v = compatibleHeaders3[pickU(t, "hdr", 3)]
				case c.Load == "0.5.10" || c.Load == "0.5.11":
					v = []string{"0.5.10", "0.5.11"}[pickU(t, "hdr", 2)]
				default:
					v = "0.5.12"
				}
			} else {
				c.Probe = []int32{0}
			}
			c.Ver = Hex(v)
			if !ok && rapid.Bool().Draw(t, "garbleheader") {
				c.Scrib = rapid.IntRange(1, 1<<20).Draw(t, "garble")
			}
			if ok && isLegacy3(c.Load) {
				// legacyStream would use Ver as header override: same effect
			}
			return c
		}
		c.Cuts = rapid.SliceOfN(rapid.IntRange(0, 1<<24), 0, 256).Draw(t, "cuts")
		return c
	})
}
func TestReplayC07(t *testing.T) { runReplay(t, "C07", checkC07) }

// ---- C20 ----

func TestC20(t *testing.T) {
	runProp(t, "C20", checkC20, func(t *rapid.T) *Case {
		c := genTrieCase(t, trieGenOpt{})
		c.Load = ""
		if pickU(t, "legacy?", 2) == 0 {
			forceLegacy(t, c)
		}
		if pickU(t, "invalid?", 10) == 0 && len(c.Keys) >= 2 {
			i := rapid.IntRange(1, len(c.Keys)-1).Draw(t, "swap")
			c.Keys[i-1], c.Keys[i] = c.Keys[i], c.Keys[i-1]
			c.Kind = "invalid"
			c.Load = ""
		}
		c.Scrib = rapid.IntRange(0, 1000).Draw(t, "scribble")
		genExtra(t, c)
		return c
	})
}
func TestReplayC20(t *testing.T) { runReplay(t, "C20", checkC20) }
