package props

import (
	"bytes"
	"fmt"
	"os"
	"time"

	"github.com/openacid/slim/trie"
)

type yielded struct {
	key []byte
	val []byte
}

// scanCallLimit bounds the callback invocations of one scan: far above the number
// of keys any generated trie holds (the scale tests do not scan).
const scanCallLimit = 3000000

type runawayScan struct{}

// runScanWatched is runScan under the hang watchdog: a scan that neither returns
// nor calls back within hangLimit is reported as a violation (the process exits,
// a spinning goroutine cannot be stopped); one that calls back without end is
// cut off by scanCallLimit and reported by the caller.
func runScanWatched(prop string, c *Case, s *Stats, st *trie.SlimTrie, sc *ScanSpec) (out []yielded, calls int, exhaustedOK bool, pv interface{}) {
	type res struct {
		out   []yielded
		calls int
		ex    bool
		pv    interface{}
	}
	done := make(chan res, 1)
	go func() {
		o, n, e, p := runScan(st, sc)
		done <- res{o, n, e, p}
	}()
	tm := time.NewTimer(hangLimit())
	defer tm.Stop()
	select {
	case r := <-done:
		return r.out, r.calls, r.ex, r.pv
	case <-tm.C:
		path := writeReplay(prop, c)
		fmt.Printf("VIOLATION property=%s replay=%s\n", prop, path)
		fmt.Printf("DETAIL property=%s non-termination: scan %+v did not return within %v (%d keys)\n", prop, *sc, hangLimit(), len(c.Keys))
		if s != nil {
			s.write()
		}
		os.Exit(1)
	}
	return
}

// runScan executes one scan and returns what it yielded, the number of
// callback invocations, and a recovered panic value (nil if none).
func runScan(st *trie.SlimTrie, sc *ScanSpec) (out []yielded, calls int, exhaustedOK bool, pv interface{}) {
	defer func() {
		if r := recover(); r != nil {
			pv = r
		}
	}()
	exhaustedOK = true
	cb := func(k, v []byte) bool {
		calls++
		if calls > scanCallLimit {
			// a scan that keeps yielding (or ignores a false returned by the callback)
			// would otherwise only end with the test deadline
			panic(runawayScan{})
		}
		y := yielded{key: append([]byte{}, k...)}
		if v != nil {
			y.val = append([]byte{}, v...)
		}
		out = append(out, y)
		return !(sc.Stop >= 0 && calls-1 >= sc.Stop)
	}
	switch sc.API {
	case "from":
		st.ScanFrom(string(sc.Start), sc.InclStart, sc.WithValue, cb)
	case "fromto":
		st.ScanFromTo(string(sc.Start), sc.InclStart, string(sc.End), sc.InclEnd, sc.WithValue, cb)
	case "iter":
		next := st.NewIter(string(sc.Start), sc.InclStart, sc.WithValue)
		for {
			k, v := next()
			if k == nil {
				if v != nil {
					exhaustedOK = false
				}
				break
			}
			if !cb(k, v) {
				return // caller stopped early: nothing to say about exhaustion
			}
		}
		for i := 0; i < 3; i++ {
			k, v := next()
			if k != nil || v != nil {
				exhaustedOK = false
			}
		}
	default:
		panic("harness: unknown scan api " + sc.API)
	}
	return
}

// expectScan computes the model's answer for a scan.
func expectScan(m *Model, sc *ScanSpec) (from, to int) {
	from, to = m.scan(string(sc.Start), sc.InclStart, sc.API == "fromto", string(sc.End), sc.InclEnd)
	if sc.Stop >= 0 && to-from > sc.Stop+1 {
		to = from + sc.Stop + 1
	}
	return
}

func compareScan(c *Case, m *Model, sc *ScanSpec, out []yielded, calls int, exhaustedOK bool) error {
	from, to := expectScan(m, sc)
	desc := func() string {
		return fmt.Sprintf("%s(start=%s incl=%v end=%s inclEnd=%v withValue=%v stop=%d)", sc.API, q(string(sc.Start)), sc.InclStart, q(string(sc.End)), sc.InclEnd, sc.WithValue, sc.Stop)
	}
	if len(out) != to-from {
		var first string
		if len(out) > 0 {
			first = q(string(out[0].key))
		}
		return viol("scan-count", "%s yielded %d entries, want %d (model range [%d,%d) of %d retained; first yielded %s)", desc(), len(out), to-from, from, to, len(m.Keys), first)
	}
	if calls != len(out) {
		return viol("scan-callback", "%s: callback invoked %d times for %d entries", desc(), calls, len(out))
	}
	for i, y := range out {
		want := m.Keys[from+i]
		if string(y.key) != want {
			return viol("scan-key", "%s entry %d: key %s, want %s", desc(), i, q(string(y.key)), q(want))
		}
		if sc.WithValue && c.HasVals {
			if !bytes.Equal(y.val, m.EncV[from+i]) {
				return viol("scan-value", "%s entry %d (key %s): value bytes %x, want %x", desc(), i, q(want), y.val, m.EncV[from+i])
			}
		} else if y.val != nil {
			return viol("scan-value", "%s entry %d: value %x although values were not requested/supplied", desc(), i, y.val)
		}
	}
	if !exhaustedOK {
		return viol("scan-exhaustion", "%s: iterator returned something after reporting exhaustion", desc())
	}
	return nil
}

// sweepScans: for every query string, a scan that stops after 3 entries.
func sweepScans(qs []string) []ScanSpec {
	var out []ScanSpec
	for i, x := range qs {
		api := "from"
		if i%3 == 1 {
			api = "iter"
		}
		out = append(out, ScanSpec{API: api, Start: Hex(x), InclStart: i%2 == 0, WithValue: i%4 < 2, Stop: 2})
	}
	return out
}

func checkC04(c *Case, s *Stats) error {
	m := newModel(c)
	fresh, st, err := c.load()
	if err != nil {
		return err
	}
	sh, ok := shapeOf(fresh)
	classify(s, c, m, sh, ok)
	complete := c.Opt.complete()
	scans := append([]ScanSpec{}, c.Scans...)
	if complete {
		scans = append(scans, sweepScans(queries(m.AllKeys, c.Win, c.Extra, false))...)
		// full scans
		scans = append(scans,
			ScanSpec{API: "from", Start: "", InclStart: true, WithValue: true, Stop: -1},
			ScanSpec{API: "iter", Start: "", InclStart: true, WithValue: true, Stop: -1},
			ScanSpec{API: "from", Start: "", InclStart: false, WithValue: false, Stop: -1})
	}
	nt := false
	refusals, permitted := 0, 0
	for i := range scans {
		sc := &scans[i]
		out, calls, exhaustedOK, pv := runScanWatched("C04", c, s, st, sc)
		if _, runaway := pv.(runawayScan); runaway {
			return viol("scan-runaway", "scan %+v called back more than %d times on a trie of %d keys (stop point %d)", *sc, scanCallLimit, len(m.Keys), sc.Stop)
		}
		if complete {
			if pv != nil {
				return viol("panic", "scan %+v on a Complete trie panicked: %v", *sc, pv)
			}
			if e := compareScan(c, m, sc, out, calls, exhaustedOK); e != nil {
				return e
			}
			if len(out) >= 3 && (m.find(string(sc.Start)) < 0 || !sc.InclStart) && ok && (sh.Prefixes > 0 || sh.Big > 0) {
				nt = true
			}
		} else {
			// refusal clause: panic before yielding anything, or exactly the model's answer
			if pv != nil {
				if len(out) != 0 {
					return viol("refusal", "scan on a %s-mode trie yielded %d entries (first %s) and then panicked: %v", c.Opt.mode(), len(out), q(string(out[0].key)), pv)
				}
				refusals++
			} else {
				if e := compareScan(c, m, sc, out, calls, exhaustedOK); e != nil {
					return viol("refusal", "scan on a %s-mode trie was not refused and is wrong: %v", c.Opt.mode(), e)
				}
				permitted++
			}
			if len(m.Keys) >= 2 && ok && sh.Prefixes > 0 {
				nt = true
			}
		}
	}
	if complete && len(scans) >= 2 {
		// two live iterators on the same trie, advanced alternately in one
		// goroutine, after earlier scans ran to exhaustion: they must not interfere
		a, b := scans[0], scans[len(scans)/2]
		err := guard("interleaved iterators", func() error {
			ita := st.NewIter(string(a.Start), a.InclStart, true)
			itb := st.NewIter(string(b.Start), b.InclStart, false)
			fa, ta := m.scan(string(a.Start), a.InclStart, false, "", false)
			fb, tb := m.scan(string(b.Start), b.InclStart, false, "", false)
			var heldA []byte // key returned by iterator A, still valid until A is called again
			heldIdx := -1
			for step := 0; step < 8; step++ {
				ka, _ := ita()
				if fa+step < ta {
					if ka == nil || string(ka) != m.Keys[fa+step] {
						return viol("iter-interference", "iterator A (start %s) step %d yields %s, want %s while iterator B is alive", q(string(a.Start)), step, q(string(ka)), q(m.Keys[fa+step]))
					}
					heldA, heldIdx = ka, fa+step
				} else if ka != nil {
					return viol("iter-interference", "iterator A yields %s after its range ended", q(string(ka)))
				} else {
					heldA, heldIdx = nil, -1
				}
				kb, vb := itb()
				if fb+step < tb {
					if kb == nil || string(kb) != m.Keys[fb+step] {
						return viol("iter-interference", "iterator B (start %s) step %d yields %s, want %s while iterator A is alive", q(string(b.Start)), step, q(string(kb)), q(m.Keys[fb+step]))
					}
					if vb != nil {
						return viol("scan-value", "iterator B yields a value although none was requested")
					}
				} else if kb != nil {
					return viol("iter-interference", "iterator B yields %s after its range ended", q(string(kb)))
				}
				// the slice handed out by A must not have been touched by B's step
				if heldIdx >= 0 && string(heldA) != m.Keys[heldIdx] {
					return viol("iter-interference", "the key returned by iterator A (%s) was overwritten by a step of iterator B", q(m.Keys[heldIdx]))
				}
			}
			return nil
		})
		if err != nil {
			return err
		}
		s.class("interleaved_iterators_checked")
		// a scan started from inside another scan's callback (same goroutine)
		outer, inner := scans[len(scans)/3], scans[(2*len(scans))/3]
		err = guard("nested scans", func() error {
			fo, to := m.scan(string(outer.Start), outer.InclStart, false, "", false)
			if to-fo > 10 {
				to = fo + 10
			}
			fi, ti := m.scan(string(inner.Start), inner.InclStart, false, "", false)
			n := 0
			var verr error
			st.ScanFrom(string(outer.Start), outer.InclStart, true, func(k, v []byte) bool {
				if fo+n >= to {
					return false
				}
				if string(k) != m.Keys[fo+n] {
					verr = viol("nested-scan", "outer scan (start %s) entry %d is %s, want %s", q(string(outer.Start)), n, q(string(k)), q(m.Keys[fo+n]))
					return false
				}
				held := k
				// the nested scan, run to at most 5 entries
				j := 0
				st.ScanFrom(string(inner.Start), inner.InclStart, false, func(k2, v2 []byte) bool {
					if fi+j < ti && string(k2) != m.Keys[fi+j] && verr == nil {
						verr = viol("nested-scan", "inner scan (start %s) entry %d is %s, want %s", q(string(inner.Start)), j, q(string(k2)), q(m.Keys[fi+j]))
					}
					j++
					return j < 5
				})
				if verr != nil {
					return false
				}
				want := ti - fi
				if want > 5 {
					want = 5
				}
				if j != want {
					verr = viol("nested-scan", "inner scan yielded %d entries, want %d", j, want)
					return false
				}
				if string(held) != m.Keys[fo+n] {
					verr = viol("nested-scan", "the key handed to the outer callback (%s) was overwritten by a scan started inside the callback", q(m.Keys[fo+n]))
					return false
				}
				n++
				return true
			})
			if verr != nil {
				return verr
			}
			if n != to-fo {
				return viol("nested-scan", "outer scan (start %s) yielded %d entries, want %d, when another scan runs inside its callback", q(string(outer.Start)), n, to-fo)
			}
			return nil
		})
		if err != nil {
			return err
		}
	}
	if complete && len(m.Keys) >= 2 && (len(c.Keys)+len(scans))%5 == 0 {
		// many scans open at once in one goroutine: 63..200 iterators stepped
		// round-robin, and ScanFrom nested that deep with sibling scans
		ns := []int{63, 64, 65, 66, 100, 128, 129, 200}
		n := ns[(len(c.Keys)/5)%len(ns)]
		const want = 6
		starts := make([]string, n)
		base := make([][]string, n)
		for g := range starts {
			at := (g*7 + len(c.Keys)) % len(m.Keys)
			starts[g] = m.Keys[at]
			to := at + want
			if to > len(m.Keys) {
				to = len(m.Keys)
			}
			base[g] = m.Keys[at:to]
		}
		if err := deepScans(st, starts, base, want); err != nil {
			return err
		}
		s.class(fmt.Sprintf("open_scans_in_one_goroutine=%d", n))
	}
	s.calls(len(scans))
	if !complete {
		cls := fmt.Sprintf("refusal:%s/dedup=%v/vals=%v", c.Opt.mode(), c.Opt.dedup(), c.HasVals)
		s.class(cls)
		s.classN("scans_refused", int64(refusals))
		s.classN("scans_permitted_and_exact", int64(permitted))
	} else {
		s.classN("scans_on_complete", int64(len(scans)))
	}
	s.done(c, nt, c.Opt.mode()+c.Load)
	return nil
}
