// Package props holds the property checks for openacid/slim.
//
// Every property is a plain function prop(c *Case) error over a
// JSON-serialisable Case. rapid only draws Cases; replay files are Cases.
package props

import (
	"bytes"
	"encoding/binary"
	"encoding/hex"
	"encoding/json"
	"fmt"
	"hash/fnv"
	"math"
	"math/bits"
	"os"
	"reflect"
	"runtime"
	"sort"
	"strings"
	"time"

	"github.com/golang/protobuf/proto"
	"github.com/openacid/slim/encode"
	"github.com/openacid/slim/trie"
)

// ---------------------------------------------------------------------------
// Hex: a byte string that serialises as hex in JSON.

type Hex string

func (h Hex) MarshalJSON() ([]byte, error) {
	return json.Marshal(hex.EncodeToString([]byte(h)))
}

func (h *Hex) UnmarshalJSON(b []byte) error {
	var s string
	if err := json.Unmarshal(b, &s); err != nil {
		return err
	}
	raw, err := hex.DecodeString(s)
	if err != nil {
		return err
	}
	*h = Hex(raw)
	return nil
}

func hexes(ss []string) []Hex {
	out := make([]Hex, len(ss))
	for i, s := range ss {
		out[i] = Hex(s)
	}
	return out
}

func strs(hs []Hex) []string {
	out := make([]string, len(hs))
	for i, s := range hs {
		out[i] = string(s)
	}
	return out
}

// ---------------------------------------------------------------------------
// Case

// Tri is a tri-state option flag: 0 = nil pointer, 1 = false, 2 = true.
type Tri int8

func (t Tri) ptr() *bool {
	switch t {
	case 1:
		return trie.Bool(false)
	case 2:
		return trie.Bool(true)
	}
	return nil
}

// OptSpec is DedupValue, InnerPrefix, LeafPrefix, Complete.
type OptSpec [4]Tri

func (o OptSpec) opt() trie.Opt {
	return trie.Opt{DedupValue: o[0].ptr(), InnerPrefix: o[1].ptr(), LeafPrefix: o[2].ptr(), Complete: o[3].ptr()}
}

// effective flags after the documented normalisation:
// DedupValue defaults to true, the others to false, Complete implies both prefixes.
func (o OptSpec) dedup() bool { return o[0] != 1 }
func (o OptSpec) inner() bool { return o[1] == 2 || o[3] == 2 }
func (o OptSpec) leaf() bool  { return o[2] == 2 || o[3] == 2 }
func (o OptSpec) complete() bool {
	return o.inner() && o.leaf()
}
func (o OptSpec) mode() string {
	switch {
	case o.complete():
		return "complete"
	case o.inner():
		return "inner"
	case o.leaf():
		return "leaf"
	}
	return "filter"
}

// Case is the universal, serialisable test case.
type Case struct {
	Prop  string `json:"prop"`
	Arch  string `json:"goarch,omitempty"` // set when the violation was seen in a non-amd64 build
	Gen   string `json:"gen,omitempty"`    // generator family (information only)
	VMode string `json:"vmode,omitempty"`  // value generator mode (information only)

	Keys    []Hex   `json:"keys"`
	Enc     string  `json:"enc"`
	HasVals bool    `json:"has_vals"`
	Vals    []Hex   `json:"vals,omitempty"` // payloads, interpreted by Enc
	Opt     OptSpec `json:"opt"`
	Load    string  `json:"load,omitempty"` // "", "reload", "proto", "over", or a legacy layout name
	Over    bool    `json:"over,omitempty"` // loads go into an instance that holds another trie and was used
	// Earlier: a trie built BEFORE this case's own builds/loads and kept alive; it is
	// observed before and after the case (later builds must not change a finished trie)
	Earlier *Case `json:"earlier,omitempty"`

	Extra []Hex `json:"extra,omitempty"` // drawn extra queries
	Win   int   `json:"win,omitempty"`   // start of the mutation window in Keys

	Scans   []ScanSpec `json:"scans,omitempty"`
	Hist    []HistOp   `json:"hist,omitempty"`
	Pool    []*Case    `json:"pool,omitempty"`
	Scrib   int        `json:"scrib,omitempty"` // scribble pattern
	Prefix  []Hex      `json:"prefix,omitempty"`
	Workers [][]ReadOp `json:"workers,omitempty"`
	Procs   int        `json:"procs,omitempty"`

	// C12
	Block int `json:"block,omitempty"`
	// C07
	Ver  Hex   `json:"ver,omitempty"`
	Cuts []int `json:"cuts,omitempty"`
	// C15 / C16 carry their own small payloads
	Ints  []int64 `json:"ints,omitempty"`
	Idx   []int32 `json:"idx,omitempty"`
	Junk  Hex     `json:"junk,omitempty"`
	Kind  string  `json:"kind,omitempty"`
	Probe []int32 `json:"probe,omitempty"`
}

type ScanSpec struct {
	API       string `json:"api"` // from | fromto | iter
	Start     Hex    `json:"start"`
	InclStart bool   `json:"incl_start"`
	End       Hex    `json:"end,omitempty"`
	InclEnd   bool   `json:"incl_end,omitempty"`
	WithValue bool   `json:"with_value"`
	Stop      int    `json:"stop"` // callback returns false at the Stop-th entry (0-based); <0: never
}

type HistOp struct {
	Op     string `json:"op"` // unmarshal | proto | reset | trunc | badver
	Stream int    `json:"stream,omitempty"`
	Cut    int    `json:"cut,omitempty"`
}

type ReadOp struct {
	Op    string `json:"op"`
	Key   Hex    `json:"key,omitempty"`
	End   Hex    `json:"end,omitempty"`
	Flag  int    `json:"flag,omitempty"`
	Steps int    `json:"steps,omitempty"`
	Yield bool   `json:"yield,omitempty"`
}

func (c *Case) keys() []string { return strs(c.Keys) }

// hash is the identity of a case for the distinct-nontrivial count.
func (c *Case) hash() uint64 {
	b, _ := json.Marshal(c)
	h := fnv.New64a()
	h.Write(b)
	return h.Sum64()
}

// sample renders a truncated copy for the evidence file.
func (c *Case) sample() json.RawMessage {
	cp := *c
	trunc := func(hs []Hex, n int) []Hex {
		if len(hs) <= n {
			return hs
		}
		out := append([]Hex{}, hs[:n]...)
		return append(out, Hex(fmt.Sprintf("...(%d more)", len(hs)-n)))
	}
	cut := func(hs []Hex) []Hex {
		out := make([]Hex, len(hs))
		for i, h := range hs {
			if len(h) > 48 {
				out[i] = Hex(string(h[:40]) + fmt.Sprintf("...(%d bytes)", len(h)))
			} else {
				out[i] = h
			}
		}
		return out
	}
	cp.Keys = cut(trunc(cp.Keys, 12))
	cp.Vals = cut(trunc(cp.Vals, 12))
	cp.Extra = cut(trunc(cp.Extra, 6))
	cp.Prefix = cut(cp.Prefix)
	if len(cp.Ver) > 48 {
		cp.Ver = cp.Ver[:48]
	}
	for i := range cp.Scans {
		sc := cp.Scans[i]
		sc.Start, sc.End = cut([]Hex{sc.Start})[0], cut([]Hex{sc.End})[0]
		cp.Scans = append(append([]ScanSpec{}, cp.Scans[:i]...), append([]ScanSpec{sc}, cp.Scans[i+1:]...)...)
	}
	if len(cp.Scans) > 4 {
		cp.Scans = cp.Scans[:4]
	}
	if len(cp.Pool) > 0 {
		pool := make([]*Case, 0, len(cp.Pool))
		for _, p := range cp.Pool {
			pp := *p
			pp.Keys = cut(trunc(pp.Keys, 4))
			pp.Vals = cut(trunc(pp.Vals, 4))
			pool = append(pool, &pp)
		}
		cp.Pool = pool
	}
	if len(cp.Workers) > 3 {
		cp.Workers = cp.Workers[:3]
	}
	for i := range cp.Workers {
		if len(cp.Workers[i]) > 6 {
			cp.Workers[i] = cp.Workers[i][:6]
		}
	}
	if len(cp.Ints) > 16 {
		cp.Ints = cp.Ints[:16]
	}
	if len(cp.Idx) > 16 {
		cp.Idx = cp.Idx[:16]
	}
	if len(cp.Probe) > 16 {
		cp.Probe = cp.Probe[:16]
	}
	if len(cp.Cuts) > 16 {
		cp.Cuts = cp.Cuts[:16]
	}
	if len(cp.Junk) > 32 {
		cp.Junk = cp.Junk[:32]
	}
	b, _ := json.Marshal(&cp)
	return b
}

// ---------------------------------------------------------------------------
// Encoders: payload bytes -> typed value, independent reference encoding.

type tstruct struct {
	A uint16
	B [3]int8
	C int32
}

// tfloat is a value type with floating-point fields: +0 and -0 (and NaNs with
// different payloads) are equal for Go but have different encodings, so such
// values are compared by bit pattern.
type tfloat struct {
	F float64
	G float32
}

func tfloatOf(p []byte) tfloat {
	q := pad(p, 12)
	return tfloat{F: math.Float64frombits(le(q, 8)), G: math.Float32frombits(uint32(le(q[8:], 4)))}
}

func tfloatBitsEq(a, b tfloat) bool {
	return math.Float64bits(a.F) == math.Float64bits(b.F) && math.Float32bits(a.G) == math.Float32bits(b.G)
}

var typeEncF = func() encode.Encoder {
	e, err := encode.NewTypeEncoder(tfloat{})
	if err != nil {
		panic(err)
	}
	return e
}()

type namedU32 uint32
type namedI16 int16

type encSpec struct {
	name  string
	enc   encode.Encoder
	width int // fixed width in bytes, 0 = variable
	// value converts payload bytes to the Go value handed to NewSlimTrie.
	value func(p []byte) interface{}
	// ref is the independent reference encoding of that value.
	ref func(p []byte) []byte
	// want is what Get must return for that value (differs for Dummy).
	want func(p []byte) interface{}
	typ  reflect.Type
}

func le(p []byte, w int) uint64 {
	var v uint64
	for i := 0; i < w && i < len(p); i++ {
		v |= uint64(p[i]) << (8 * uint(i))
	}
	return v
}

func leBytes(v uint64, w int) []byte {
	b := make([]byte, w)
	for i := 0; i < w; i++ {
		b[i] = byte(v >> (8 * uint(i)))
	}
	return b
}

func pad(p []byte, w int) []byte {
	b := make([]byte, w)
	copy(b, p)
	return b
}

var typeEnc = func() encode.Encoder {
	e, err := encode.NewTypeEncoder(tstruct{})
	if err != nil {
		panic(err)
	}
	return e
}()

const nativeIntBytes = bits.UintSize / 8

func nativeInt(v uint64) interface{} {
	if nativeIntBytes == 4 {
		return int(int32(uint32(v)))
	}
	return int(int64(v))
}

func intSpec(name string, enc encode.Encoder, w int, conv func(uint64) interface{}) *encSpec {
	s := &encSpec{name: name, enc: enc, width: w}
	s.value = func(p []byte) interface{} { return conv(le(p, w)) }
	s.ref = func(p []byte) []byte { return pad(p, w)[:w] }
	s.want = s.value
	s.typ = reflect.TypeOf(conv(0))
	return s
}

var encSpecs = map[string]*encSpec{}

func init() {
	add := func(s *encSpec) { encSpecs[s.name] = s }
	add(intSpec("I8", encode.I8{}, 1, func(v uint64) interface{} { return int8(v) }))
	add(intSpec("I16", encode.I16{}, 2, func(v uint64) interface{} { return int16(v) }))
	add(intSpec("I32", encode.I32{}, 4, func(v uint64) interface{} { return int32(v) }))
	add(intSpec("I64", encode.I64{}, 8, func(v uint64) interface{} { return int64(v) }))
	add(intSpec("U16", encode.U16{}, 2, func(v uint64) interface{} { return uint16(v) }))
	add(intSpec("U32", encode.U32{}, 4, func(v uint64) interface{} { return uint32(v) }))
	add(intSpec("U64", encode.U64{}, 8, func(v uint64) interface{} { return uint64(v) }))
	// the native int: 8 bytes on 64-bit platforms, 4 bytes on 32-bit ones
	add(intSpec("Int", encode.Int{}, nativeIntBytes, nativeInt))

	str := &encSpec{name: "String16", enc: encode.String16{}, width: 0}
	str.value = func(p []byte) interface{} { return string(p) }
	str.ref = func(p []byte) []byte {
		return append([]byte{byte(len(p) >> 8), byte(len(p))}, p...)
	}
	str.want = str.value
	str.typ = reflect.TypeOf("")
	add(str)

	for _, sz := range []int{1, 3, 5, 300} {
		sz := sz
		b := &encSpec{name: fmt.Sprintf("Bytes%d", sz), enc: encode.Bytes{Size: sz}, width: sz}
		b.value = func(p []byte) interface{} { return pad(p, sz) }
		b.ref = func(p []byte) []byte { return pad(p, sz) }
		b.want = b.value
		b.typ = reflect.TypeOf([]byte{})
		add(b)
	}

	te := &encSpec{name: "TypeEnc", enc: typeEnc, width: 9}
	te.value = func(p []byte) interface{} {
		q := pad(p, 9)
		return tstruct{A: uint16(q[0]) | uint16(q[1])<<8, B: [3]int8{int8(q[2]), int8(q[3]), int8(q[4])},
			C: int32(uint32(q[5]) | uint32(q[6])<<8 | uint32(q[7])<<16 | uint32(q[8])<<24)}
	}
	te.ref = func(p []byte) []byte { return pad(p, 9) }
	te.want = te.value
	te.typ = reflect.TypeOf(tstruct{})
	add(te)

	add(intSpec("StrictU32", strictU32{}, 4, func(v uint64) interface{} { return uint32(v) }))

	ou := &encSpec{name: "OptU16", enc: optU16{}, width: 0}
	ou.value = func(p []byte) interface{} {
		if optAbsent(p) {
			return nil
		}
		return uint16(le(p, 2))
	}
	ou.ref = func(p []byte) []byte {
		if optAbsent(p) {
			return []byte{}
		}
		return pad(p, 2)
	}
	ou.want = ou.value
	ou.typ = reflect.TypeOf((*interface{})(nil)).Elem()
	add(ou)

	tf := &encSpec{name: "TypeEncF", enc: typeEncF, width: 12}
	tf.value = func(p []byte) interface{} { return tfloatOf(p) }
	tf.ref = func(p []byte) []byte { return pad(p, 12) }
	tf.want = tf.value
	tf.typ = reflect.TypeOf(tfloat{})
	add(tf)

	// TypeEncoder over plain and named scalar types, in both byte orders (the
	// constructors are exported and documented with binary.BigEndian examples)
	scalar := func(name string, zero interface{}, w int, big bool, conv func(uint64) interface{}) {
		var ord binary.ByteOrder = binary.LittleEndian
		if big {
			ord = binary.BigEndian
		}
		e, err := encode.NewTypeEncoderEndian(zero, ord)
		if err != nil {
			panic(err)
		}
		sp := &encSpec{name: name, enc: e, width: w}
		sp.value = func(p []byte) interface{} { return conv(le(p, w)) }
		sp.ref = func(p []byte) []byte {
			b := pad(p, w)[:w]
			if big {
				for i, j := 0, w-1; i < j; i, j = i+1, j-1 {
					b[i], b[j] = b[j], b[i]
				}
			}
			return b
		}
		sp.want = sp.value
		sp.typ = reflect.TypeOf(zero)
		add(sp)
	}
	scalar("TBEU16", uint16(0), 2, true, func(v uint64) interface{} { return uint16(v) })
	scalar("TBEU32", uint32(0), 4, true, func(v uint64) interface{} { return uint32(v) })
	scalar("TBEU64", uint64(0), 8, true, func(v uint64) interface{} { return uint64(v) })
	scalar("TBEI16", int16(0), 2, true, func(v uint64) interface{} { return int16(v) })
	scalar("TBEN32", namedU32(0), 4, true, func(v uint64) interface{} { return namedU32(v) })
	scalar("TLEU64", uint64(0), 8, false, func(v uint64) interface{} { return uint64(v) })
	scalar("TLEN16", namedI16(0), 2, false, func(v uint64) interface{} { return namedI16(v) })

	// Dummy documents "Decode always returns nil" and encodes to nothing.
	du := &encSpec{name: "Dummy", enc: encode.Dummy{}, width: 0}
	du.value = func(p []byte) interface{} { return int32(le(p, 4)) }
	du.ref = func(p []byte) []byte { return []byte{} }
	du.want = func(p []byte) interface{} { return nil }
	du.typ = reflect.TypeOf(int32(0))
	add(du)
}

// optU16 is a USER-DEFINED encoder: an optional uint16. An absent value encodes
// to zero bytes, a present one to two little-endian bytes. slim stores such
// values in a leaf array with a presence bitmap (newVLenArray keeps empty
// elements as absent) and always hands Decode exactly the bytes of one element.
type optU16 struct{}

func (optU16) Encode(d interface{}) []byte {
	if d == nil {
		return []byte{}
	}
	v := d.(uint16)
	return []byte{byte(v), byte(v >> 8)}
}
func (optU16) Decode(b []byte) (int, interface{}) {
	if len(b) < 2 {
		return 0, nil
	}
	return 2, uint16(b[0]) | uint16(b[1])<<8
}
func (optU16) GetSize(d interface{}) int {
	if d == nil {
		return 0
	}
	return 2
}
func (optU16) GetEncodedSize(b []byte) int {
	if len(b) < 2 {
		return 0
	}
	return 2
}

func optAbsent(p []byte) bool { return len(p) == 0 || p[0]%3 == 0 }

// strictU32 is a USER-DEFINED fixed-size encoder that takes the interface
// documentation literally: "GetSize returns the size in byte after encoding v.
// If v is of type this encoder can not encode, it panics." (GetEncodedSize is
// called with nil by the library itself and must accept it.)
type strictU32 struct{}

func (strictU32) Encode(d interface{}) []byte {
	v := d.(uint32)
	return []byte{byte(v), byte(v >> 8), byte(v >> 16), byte(v >> 24)}
}
func (strictU32) Decode(b []byte) (int, interface{}) {
	return 4, uint32(b[0]) | uint32(b[1])<<8 | uint32(b[2])<<16 | uint32(b[3])<<24
}
func (strictU32) GetSize(d interface{}) int {
	_ = d.(uint32) // panics for anything that is not a uint32, as documented
	return 4
}
func (strictU32) GetEncodedSize(b []byte) int { return 4 }

var fixedEncNames = []string{"I8", "I16", "I32", "I64", "U16", "U32", "U64", "Int", "Bytes1", "Bytes3", "Bytes5", "Bytes300", "TypeEnc", "TypeEncF", "StrictU32",
	"TBEU16", "TBEU32", "TBEU64", "TBEI16", "TBEN32", "TLEU64", "TLEN16"}
var allEncNames = append(append([]string{}, fixedEncNames...), "String16", "Dummy", "OptU16")

func (c *Case) spec() *encSpec {
	s := encSpecs[c.Enc]
	if s == nil {
		panic("unknown encoder " + c.Enc)
	}
	return s
}

// encoder returns the encoder handed to NewSlimTrie. The stock encoders have
// value receivers, so &encode.I32{} is the same encoder as encode.I32{}: the two
// spellings are used in turn (a deterministic function of the case).
// keyOnlyEncoder: a key-only index never encodes or decodes a value. NewSlimTrie
// documents a nil encoder for that, and any other encoder is as good. Used only
// for the build of a key-only case and for the instance its OWN stream is loaded
// into (an instance that will later receive other streams needs their encoder).
func (c *Case) keyOnlyEncoder() encode.Encoder {
	if !c.HasVals {
		switch (len(c.Keys) + len(c.Enc)) % 4 {
		case 1:
			return nil
		case 2:
			return encode.String16{}
		}
	}
	return c.encoder()
}

func (c *Case) encoder() encode.Encoder {
	e := c.spec().enc
	if (len(c.Keys)+len(c.Vals))%3 != 1 {
		return e
	}
	switch v := e.(type) {
	case encode.I8:
		return &v
	case encode.I16:
		return &v
	case encode.I32:
		return &v
	case encode.I64:
		return &v
	case encode.U16:
		return &v
	case encode.U32:
		return &v
	case encode.U64:
		return &v
	case encode.Int:
		return &v
	case encode.String16:
		return &v
	case encode.Bytes:
		return &v
	}
	return e
}

// typedValues builds the typed slice handed to NewSlimTrie (e.g. []int32), or nil.
func (c *Case) typedValues() interface{} {
	if !c.HasVals {
		return nil
	}
	s := c.spec()
	sl := reflect.MakeSlice(reflect.SliceOf(s.typ), len(c.Vals), len(c.Vals))
	for i, p := range c.Vals {
		if v := s.value([]byte(p)); v != nil {
			sl.Index(i).Set(reflect.ValueOf(v))
		}
	}
	return sl.Interface()
}

// ---------------------------------------------------------------------------
// Reference model: a sorted slice with binary search. Shares no code with slim.

type Model struct {
	Keys []string      // retained keys, ascending
	Want []interface{} // value Get must return for Keys[i] (nil when no values)
	EncV [][]byte      // reference-encoded value bytes (nil when no values)
	Src  []int         // index into the input list
	// for every input key: index into Keys of the retained key whose range covers it
	Cover   []int
	AllKeys []string
	HasVals bool
	Dropped int
}

func newModel(c *Case) *Model {
	keys := c.keys()
	m := &Model{AllKeys: keys, HasVals: c.HasVals}
	var s *encSpec
	if c.HasVals {
		s = c.spec()
	}
	var prev []byte
	for i, k := range keys {
		var ev []byte
		if c.HasVals {
			ev = s.ref([]byte(c.Vals[i]))
		}
		keep := true
		if c.Opt.dedup() && c.HasVals && i > 0 && bytes.Equal(prev, ev) {
			keep = false
		}
		if keep {
			m.Keys = append(m.Keys, k)
			m.Src = append(m.Src, i)
			if c.HasVals {
				m.Want = append(m.Want, s.want([]byte(c.Vals[i])))
				m.EncV = append(m.EncV, ev)
			} else {
				m.Want = append(m.Want, nil)
				m.EncV = append(m.EncV, nil)
			}
		} else {
			m.Dropped++
		}
		m.Cover = append(m.Cover, len(m.Keys)-1)
		prev = ev
	}
	return m
}

// find returns the index of q in Keys, or -1.
func (m *Model) find(q string) int {
	i := sort.SearchStrings(m.Keys, q)
	if i < len(m.Keys) && m.Keys[i] == q {
		return i
	}
	return -1
}

// floor: greatest index with Keys[i] <= q, or -1.
func (m *Model) floor(q string) int {
	i := sort.Search(len(m.Keys), func(i int) bool { return m.Keys[i] > q })
	return i - 1
}

// lower: greatest index with Keys[i] < q, or -1.
func (m *Model) lower(q string) int {
	return sort.SearchStrings(m.Keys, q) - 1
}

// higher: smallest index with Keys[i] > q, or -1.
func (m *Model) higher(q string) int {
	i := sort.Search(len(m.Keys), func(i int) bool { return m.Keys[i] > q })
	if i == len(m.Keys) {
		return -1
	}
	return i
}

// scan returns the index range [from,to) of retained keys within the bounds.
func (m *Model) scan(start string, incl bool, hasEnd bool, end string, inclEnd bool) (int, int) {
	from := sort.SearchStrings(m.Keys, start)
	if !incl && from < len(m.Keys) && m.Keys[from] == start {
		from++
	}
	to := len(m.Keys)
	if hasEnd {
		to = sort.SearchStrings(m.Keys, end)
		if inclEnd && to < len(m.Keys) && m.Keys[to] == end {
			to++
		}
	}
	if to < from {
		to = from
	}
	return from, to
}

func (m *Model) want(i int) interface{} {
	if i < 0 {
		return nil
	}
	return m.Want[i]
}

// ---------------------------------------------------------------------------
// Building and loading

type violation struct {
	kind string
	msg  string
}

func (v *violation) Error() string { return v.kind + ": " + v.msg }

func viol(kind, format string, args ...interface{}) error {
	return &violation{kind: kind, msg: fmt.Sprintf(format, args...)}
}

// guard runs f and converts a panic into a violation with the slim frames of the stack.
func guard(what string, f func() error) (err error) {
	defer func() {
		if r := recover(); r != nil {
			buf := make([]byte, 16384)
			n := runtime.Stack(buf, false)
			where := ""
			for _, l := range strings.Split(string(buf[:n]), "\n") {
				if strings.Contains(l, "/trie/") || strings.Contains(l, "/array/") || strings.Contains(l, "/encode/") || strings.Contains(l, "/index/") {
					where += " < " + strings.TrimSpace(l)
					if len(where) > 600 {
						break
					}
				}
			}
			err = viol("panic", "%s panicked: %v @%s", what, r, where)
		}
	}()
	return f()
}

// hangLimit is the watchdog bound for calls that normally take milliseconds.
// It exists only to turn non-termination into a reported violation instead of
// an inconclusive test timeout; it is about 10^3..10^5 times the normal run time.
func hangLimit() time.Duration {
	return time.Duration(envInt("VERIF_HANG_S", 150)) * time.Second
}

// guardHang is guard plus a watchdog. f runs in its own goroutine; if it does
// not return within hangLimit the case is saved, a VIOLATION line is printed
// and the process exits (a spinning goroutine cannot be stopped).
func guardHang(prop string, c *Case, s *Stats, what string, f func() error) error {
	done := make(chan error, 1)
	go func() { done <- guard(what, f) }()
	tm := time.NewTimer(hangLimit())
	defer tm.Stop()
	select {
	case err := <-done:
		return err
	case <-tm.C:
		path := writeReplay(prop, c)
		fmt.Printf("VIOLATION property=%s replay=%s\n", prop, path)
		fmt.Printf("DETAIL property=%s non-termination: %s did not return within %v (%d keys)\n", prop, what, hangLimit(), len(c.Keys))
		if s != nil {
			s.write()
		}
		os.Exit(1)
	}
	return nil
}

// build calls NewSlimTrie. Equivalent spellings of one input are used in turn
// (chosen by a deterministic function of the case, so that replays agree):
// no Opt argument instead of Opt{} when every option field is nil, and
// []interface{} instead of a typed slice for the values.
func (c *Case) build() (*trie.SlimTrie, error) {
	return c.buildEnc(c.keyOnlyEncoder())
}

// buildEnc builds with an explicit encoder (an instance that will later be
// loaded with valued streams needs the real encoder even if it starts key-only).
func (c *Case) buildEnc(enc encode.Encoder) (*trie.SlimTrie, error) {
	vals := c.typedValues()
	sel := len(c.Keys) + len(c.Enc)
	if vals != nil && sel%5 == 2 {
		rv := reflect.ValueOf(vals)
		boxed := make([]interface{}, rv.Len())
		for i := range boxed {
			boxed[i] = rv.Index(i).Interface()
		}
		vals = boxed
	}
	keys := c.keys()
	if sel%3 == 1 {
		// the caller cut its keys out of ONE string: a key that is a prefix of the
		// next key starts at the same address
		keys = sharedBacking(keys)
	}
	if bv, ok := vals.([][]byte); ok && sel%4 == 3 {
		// ... and its values out of one buffer (capacity reaches into the next value)
		total := 0
		for _, v := range bv {
			total += len(v)
		}
		buf := make([]byte, 0, total)
		packed := make([][]byte, len(bv))
		for i, v := range bv {
			at := len(buf)
			buf = append(buf, v...)
			packed[i] = buf[at:len(buf)]
		}
		vals = packed
	}
	small := len(keys) <= 20000 // the warm-up builds below double the work; identity needs no size
	if small {
		total := 0
		for _, k := range keys {
			total += len(k)
		}
		small = total <= 2<<20
	}
	if small && sel%6 == 4 && len(keys) > 0 {
		// the caller refills ONE key buffer: it held other keys a moment ago (an
		// unrelated trie was built from them), now it holds this case's keys. A
		// build is a function of the CONTENTS of its arguments at the time of the
		// call; the identity of the slice says nothing (C08-g).
		buf := make([]string, len(keys))
		for i := range buf {
			buf[i] = fmt.Sprintf("%c%07d", 'a'+byte(i%3), i*31+len(keys))
		}
		sort.Strings(buf)
		if _, err := trie.NewSlimTrie(encode.Dummy{}, buf, nil); err != nil {
			return nil, fmt.Errorf("harness: warm-up build from the caller's buffer failed: %v", err)
		}
		copy(buf, keys)
		keys = buf
	}
	if small && vals != nil && sel%9 == 7 && len(keys) > 1 {
		// ... and likewise ONE value buffer: it held the same values in reverse
		// order when another trie was built from it
		rv := reflect.ValueOf(vals)
		n := rv.Len()
		buf := reflect.MakeSlice(rv.Type(), n, n)
		for i := 0; i < n; i++ {
			buf.Index(i).Set(rv.Index(n - 1 - i))
		}
		// (the outcome of this other build is not this case's business: the case's
		// own key list may be one that must be rejected)
		func() {
			defer func() { recover() }()
			trie.NewSlimTrie(enc, keys, buf.Interface(), trie.Opt{DedupValue: trie.Bool(false)})
		}()
		reflect.Copy(buf, rv)
		vals = buf.Interface()
	}
	if sel%16 == 5 {
		runtime.GC() // pooled or weakly held builder state does not survive a collection
	}
	if sel%7 == 3 {
		// history: earlier in the process the caller made option pointers with the
		// library's helper, built with them, and then wrote through ITS OWN pointers
		// to re-use the variables (e.g. the same data once exact, once compact).
		// That is the caller's memory; a later build with fresh pointers is not
		// concerned. The variables are set back afterwards.
		yes, no := trie.Bool(true), trie.Bool(false)
		if _, err := trie.NewSlimTrie(encode.I32{}, []string{"a", "b"}, []int32{1, 2}, trie.Opt{Complete: yes, DedupValue: no}); err != nil {
			return nil, fmt.Errorf("harness: warm-up build failed: %v", err)
		}
		*yes, *no = false, true
		defer func() { *yes, *no = true, false }()
	}
	if c.Opt == (OptSpec{}) && sel%2 == 0 {
		return trie.NewSlimTrie(enc, keys, vals)
	}
	return trie.NewSlimTrie(enc, keys, vals, c.Opt.opt())
}

// sharedBacking returns equal keys that are all substrings of one string; a key
// that is a prefix of its successor shares the successor's start address.
func sharedBacking(keys []string) []string {
	n := len(keys)
	out := make([]string, n)
	isPref := make([]bool, n)
	for i := 0; i+1 < n; i++ {
		isPref[i] = strings.HasPrefix(keys[i+1], keys[i])
	}
	offs := make([]int, n)
	var sb strings.Builder
	for i := 0; i < n; i++ {
		if !isPref[i] {
			offs[i] = sb.Len()
			sb.WriteString(keys[i])
		}
	}
	all := sb.String()
	for i := n - 1; i >= 0; i-- {
		if !isPref[i] {
			out[i] = all[offs[i] : offs[i]+len(keys[i])]
		} else {
			out[i] = out[i+1][:len(keys[i])]
		}
	}
	return out
}

// loadTarget is the instance a stream is loaded into: a new empty trie, or
// (c.Over) an instance that holds another trie and whose read APIs were used.
func loadTarget(c *Case) *trie.SlimTrie {
	if c.Over {
		return usedInstance(c)
	}
	st, err := trie.NewSlimTrie(c.keyOnlyEncoder(), nil, nil)
	if err != nil {
		panic(err)
	}
	return st
}

func emptyTrie(c *Case) *trie.SlimTrie {
	st, err := trie.NewSlimTrie(c.encoder(), nil, nil)
	if err != nil {
		panic(err)
	}
	return st
}

// load builds the trie and brings it into the requested load state.
// It returns the fresh trie as well.
func (c *Case) load() (fresh, st *trie.SlimTrie, err error) {
	err = guard("NewSlimTrie", func() error {
		var e error
		fresh, e = c.build()
		if e != nil {
			return viol("build", "NewSlimTrie rejected valid input: %v", e)
		}
		if fresh == nil {
			return viol("build", "NewSlimTrie returned nil trie and nil error")
		}
		return nil
	})
	if err != nil {
		return nil, nil, err
	}
	st, err = c.loadFrom(fresh)
	return fresh, st, err
}

func (c *Case) loadFrom(fresh *trie.SlimTrie) (st *trie.SlimTrie, err error) {
	switch c.Load {
	case "", "fresh":
		return fresh, nil
	case "reload":
		err = guard("Marshal/Unmarshal", func() error {
			b, e := fresh.Marshal()
			if e != nil {
				return viol("marshal", "Marshal failed: %v", e)
			}
			st = loadTarget(c)
			if e := st.Unmarshal(b); e != nil {
				return viol("unmarshal", "Unmarshal of own bytes failed: %v", e)
			}
			return nil
		})
		return st, err
	case "over":
		// load into an instance that already holds ANOTHER trie and has been used
		err = guard("Marshal/Unmarshal over a used instance", func() error {
			b, e := fresh.Marshal()
			if e != nil {
				return viol("marshal", "Marshal failed: %v", e)
			}
			st = usedInstance(c)
			if e := st.Unmarshal(b); e != nil {
				return viol("unmarshal", "Unmarshal of own bytes into a used instance failed: %v", e)
			}
			return nil
		})
		return st, err
	case "proto":
		err = guard("proto.Marshal/Unmarshal", func() error {
			b, e := proto.Marshal(fresh)
			if e != nil {
				return viol("marshal", "proto.Marshal failed: %v", e)
			}
			st = loadTarget(c)
			if e := proto.Unmarshal(b, st); e != nil {
				return viol("unmarshal", "proto.Unmarshal of own bytes failed: %v", e)
			}
			return nil
		})
		return st, err
	}
	// legacy layouts
	// producing the stream is harness code: a failure there is not a violation
	b, e := safeLegacyStream(c, c.Load)
	if e != nil {
		return nil, e
	}
	err = guard("Unmarshal of a legacy stream", func() error {
		st = loadTarget(c)
		if e := st.Unmarshal(b); e != nil {
			return viol("unmarshal", "Unmarshal of %s stream failed: %v", c.Load, e)
		}
		return nil
	})
	return st, err
}

func safeLegacyStream(c *Case, layout string) (b []byte, err error) {
	defer func() {
		if r := recover(); r != nil {
			err = fmt.Errorf("legacy writer panicked (harness problem): %v", r)
		}
	}()
	return legacyStream(c, layout)
}

var lateRejectKeys = func() []string {
	// a regular tree of 4096 six-byte keys (thousands of inner nodes with
	// repetitive bitmaps) plus two keys that share a 40000-byte run deep in the
	// tree: the build is rejected (step does not fit 16 bits) only late in its
	// breadth-first walk
	var nibs [][]byte
	pairs := [][2]byte{{1, 2}, {3, 9}, {0, 15}, {4, 5}}
	var rec func(path []byte, d int)
	rec = func(path []byte, d int) {
		if d == 0 {
			nibs = append(nibs, append([]byte{}, path...))
			return
		}
		p := pairs[(len(path)+int(path[len(path)-1]))%len(pairs)]
		rec(append(append([]byte{}, path...), p[0]), d-1)
		rec(append(append([]byte{}, path...), p[1]), d-1)
	}
	rec([]byte{7}, 11)
	keys := nibblesToKeys(nibs, 0)
	last := keys[len(keys)-1]
	run := strings.Repeat("r", 40000)
	keys = append(keys, last[:5]+"\xfe"+run+"a", last[:5]+"\xfe"+run+"b")
	return uniqSorted(keys)
}()

// lateRejectedBuild makes NewSlimTrie fail late in a build (in filter mode the
// shared 40000-byte run does not fit a step). It reports whether the build was
// rejected; an accepted build is not this helper's business.
func lateRejectedBuild() (rejected bool, err error) {
	err = guard("NewSlimTrie on keys with a 40000-byte shared run", func() error {
		st, e := trie.NewSlimTrie(nil, lateRejectKeys, nil)
		if e != nil && st != nil {
			return viol("err-and-trie", "NewSlimTrie returned an error and a trie")
		}
		rejected = e != nil
		return nil
	})
	return
}

// usedInstance returns a trie (same encoder as c) that holds other data and
// whose read APIs have all been called at least once.
// coldStart (set by the C11 test): helpers must not call read APIs on their
// own, so that the FIRST use of every API in the process happens in the
// concurrent phase (process-wide lazily initialised state).
var coldStart bool

func usedInstance(c *Case) *trie.SlimTrie {
	keys := []string{"", "\x00", "a", "ab", "abc", "abd", "b", "\xff", "\xff\xff"}
	oc := &Case{Keys: hexes(keys), Enc: c.Enc, HasVals: true, Opt: OptSpec{1, 0, 0, 2}}
	for i := range keys {
		oc.Vals = append(oc.Vals, Hex(leBytes(uint64(i+1)*0x0101010101010101, 8)))
	}
	st, err := oc.build()
	if err != nil {
		panic(fmt.Sprintf("harness: cannot build the used instance: %v", err))
	}
	if coldStart {
		return st
	}
	te := typedEnc(oc)
	for _, k := range append(keys, "zz", "abcd") {
		st.Get(k)
		st.GetID(k)
		st.RangeGet(k)
		st.Search(k)
		switch te {
		case "I8":
			st.GetI8(k)
		case "I16":
			st.GetI16(k)
		case "I32":
			st.GetI32(k)
		case "I64":
			st.GetI64(k)
		}
	}
	st.ScanFrom("", true, true, func(k, v []byte) bool { return true })
	it := st.NewIter("a", false, true)
	it()
	st.Stat()
	_ = st.String()
	st.Marshal()
	return st
}

func valEq(a, b interface{}) bool {
	if af, ok := a.(tfloat); ok {
		bf, ok2 := b.(tfloat)
		return ok2 && tfloatBitsEq(af, bf)
	}
	if ab, ok := a.([]byte); ok {
		bb, ok2 := b.([]byte)
		return ok2 && bytes.Equal(ab, bb)
	}
	return reflect.DeepEqual(a, b)
}

func q(s string) string {
	if len(s) > 40 {
		return fmt.Sprintf("%x...(%d bytes)", s[:32], len(s))
	}
	return fmt.Sprintf("%x", s)
}
