package props

import (
	"testing"

	"pgregory.net/rapid"
)

var intEncs = []string{"I8", "I16", "I32", "I64"}

// encoders whose values render unambiguously in String()
var renderEncs = []string{"I8", "I16", "I32", "I64", "U16", "U32", "U64", "Int", "OptU16", "StrictU32"}

func TestC01(t *testing.T) {
	runProp(t, "C01", liveCheck(checkC01), func(t *rapid.T) *Case {
		c := genTrieCase(t, trieGenOpt{})
		genEarlier(t, c)
		return c
	})
}
func TestReplayC01(t *testing.T) { runReplay(t, "C01", liveCheck(checkC01)) }

func TestC02(t *testing.T) {
	runProp(t, "C02", liveCheck(checkC02), func(t *rapid.T) *Case {
		c := genTrieCase(t, trieGenOpt{forceRuns: true, needVals: true})
		genEarlier(t, c)
		return c
	})
}
func TestReplayC02(t *testing.T) { runReplay(t, "C02", liveCheck(checkC02)) }

func TestC03(t *testing.T) {
	runProp(t, "C03", liveCheck(checkC03), func(t *rapid.T) *Case {
		c := genTrieCase(t, trieGenOpt{complete: true})
		genExtra(t, c)
		genEarlier(t, c)
		return c
	})
}
func TestReplayC03(t *testing.T) { runReplay(t, "C03", liveCheck(checkC03)) }

func TestC09(t *testing.T) {
	runProp(t, "C09", liveCheck(checkC09), func(t *rapid.T) *Case {
		c := genTrieCase(t, trieGenOpt{needVals: true})
		if pickU(t, "legacy?", 6) == 0 {
			forceLegacy(t, c)
		}
		genEarlier(t, c)
		return c
	})
}
func TestReplayC09(t *testing.T) { runReplay(t, "C09", liveCheck(checkC09)) }

func TestC10(t *testing.T) {
	runProp(t, "C10", liveCheck(checkC10), func(t *rapid.T) *Case {
		c := genTrieCase(t, trieGenOpt{})
		if pickU(t, "legacy?", 6) == 0 {
			forceLegacy(t, c)
		}
		genExtra(t, c)
		genEarlier(t, c)
		return c
	})
}
func TestReplayC10(t *testing.T) { runReplay(t, "C10", liveCheck(checkC10)) }

func TestC13(t *testing.T) {
	runProp(t, "C13", liveCheck(checkC13), func(t *rapid.T) *Case {
		c := genTrieCase(t, trieGenOpt{})
		c.Opt = OptSpec{c.Opt[0], 0, 0, 0}
		c.Scrib = rapid.IntRange(0, 31).Draw(t, "spelling")
		genExtra(t, c)
		genEarlier(t, c)
		return c
	})
}
func TestReplayC13(t *testing.T) { runReplay(t, "C13", liveCheck(checkC13)) }

func TestC14(t *testing.T) {
	runProp(t, "C14", liveCheck(checkC14), func(t *rapid.T) *Case {
		c := genTrieCase(t, trieGenOpt{encs: intEncs, needVals: true})
		if c.Enc == "I32" && rapid.Bool().Draw(t, "reenc") {
			// undo the I32 weighting of genEnc for this property
			c.Enc = rapid.SampledFrom(intEncs).Draw(t, "enc2")
			c.Vals, _ = genVals(t, len(c.Keys), c.Enc, false)
		}
		if pickU(t, "legacy?", 6) == 0 {
			forceLegacy(t, c)
		}
		if pickU(t, "reloadhistory", 3) == 0 {
			// another trie (same encoder, with values) to be loaded into the same object afterwards
			o := genTrieCase(t, trieGenOpt{encs: []string{c.Enc}, needVals: true, fams: []famWeight{{"K1", 3}, {"K2", 1}, {"K3", 1}, {"K6", 1}}})
			o.Enc = c.Enc
			o.Vals, o.VMode = genVals(t, len(o.Keys), o.Enc, false)
			o.Load = ""
			c.Pool = []*Case{o}
		}
		genExtra(t, c)
		genEarlier(t, c)
		return c
	})
}
func TestReplayC14(t *testing.T) { runReplay(t, "C14", liveCheck(checkC14)) }

func TestC18(t *testing.T) {
	runProp(t, "C18", liveCheck(checkC18), func(t *rapid.T) *Case {
		c := genTrieCase(t, trieGenOpt{})
		genLegacyLoad(t, c)
		genEarlier(t, c)
		return c
	})
}
func TestReplayC18(t *testing.T) { runReplay(t, "C18", liveCheck(checkC18)) }

func TestC19(t *testing.T) {
	runProp(t, "C19", liveCheck(checkC19), func(t *rapid.T) *Case {
		fams := []famWeight{{"K1", 20}, {"K2", 25}, {"K3", 10}, {"K5", 5}, {"K6", 10}, {"K7", 5}, {"Krand", 5}, {"Kshort", 20}}
		c := genTrieCase(t, trieGenOpt{encs: renderEncs, fams: fams, slowAPI: true})
		genEarlier(t, c)
		return c
	})
}
func TestReplayC19(t *testing.T) { runReplay(t, "C19", liveCheck(checkC19)) }

// genEarlier sometimes adds a trie that is built before the case and kept alive.
func genEarlier(t *rapid.T, c *Case) {
	if pickU(t, "earlier?", 5) != 0 {
		return
	}
	fams := []famWeight{{"K1", 3}, {"K2", 3}, {"K3", 2}, {"K5", 1}, {"K6", 1}, {"Krand", 1}, {"Kmix", 1}}
	e := genTrieCase(t, trieGenOpt{fams: fams})
	e.Load = ""
	c.Earlier = e
}

// genLegacyLoad optionally turns the case into one loaded from a legacy stream,
// adjusting it so that the layout can express it (DESIGN.md 3.5).
func genLegacyLoad(t *rapid.T, c *Case) {
	if rapid.IntRange(0, 2).Draw(t, "legacy?") != 0 {
		return
	}
	forceLegacy(t, c)
}

func forceLegacy(t *rapid.T, c *Case) {
	layout := rapid.SampledFrom(legacyLayouts).Draw(t, "layout")
	c.Over = rapid.IntRange(0, 2).Draw(t, "over") == 0
	if c.spec().width == 0 {
		c.Enc = "I32"
		if c.HasVals {
			c.Vals, _ = genVals(t, len(c.Keys), c.Enc, false)
		}
	}
	if isLegacy3(layout) {
		if !c.HasVals {
			c.HasVals = true
			c.Vals, _ = genVals(t, len(c.Keys), c.Enc, false)
		}
		c.Opt = OptSpec{1, 0, 0, 0}
		// the old writers cannot encode every key set (u16 steps, u16 child ranks)
		s := c.spec()
		vals := make([][]byte, len(c.Vals))
		for i, p := range c.Vals {
			vals[i] = s.ref([]byte(p))
		}
		if err := legacy3Encodable(buildOld(c.keys(), vals), layout); err != nil {
			return // keep the case as a non-legacy one
		}
	} else {
		if c.Opt.leaf() && !c.Opt.inner() {
			c.Opt = OptSpec{c.Opt[0], 0, 0, 2}
		}
		if c.Opt.complete() && !c.HasVals {
			c.HasVals = true
			c.Vals, _ = genVals(t, len(c.Keys), c.Enc, false)
		}
	}
	c.Load = layout
}

// pickQuery picks a start/end string: mostly from Q(keys), sometimes drawn.
func pickQuery(t *rapid.T, qs []string, label string) Hex {
	if len(qs) == 0 || rapid.IntRange(0, 9).Draw(t, label+"?") == 0 {
		return Hex(rapid.SliceOfN(rapid.Byte(), 0, 6).Draw(t, label+"raw"))
	}
	return Hex(qs[pickU(t, label, len(qs))])
}

func genScans(t *rapid.T, c *Case, n int) {
	qs := queries(c.keys(), c.Win, c.Extra, false)
	cnt := rapid.IntRange(1, n).Draw(t, "nscans")
	for i := 0; i < cnt; i++ {
		sc := ScanSpec{
			API:       []string{"from", "fromto", "iter"}[pickU(t, "api", 3)],
			Start:     pickQuery(t, qs, "start"),
			InclStart: rapid.Bool().Draw(t, "inclstart"),
			WithValue: rapid.Bool().Draw(t, "withvalue"),
			Stop:      rapid.SampledFrom([]int{-1, -1, -1, 0, 1, 2, 5}).Draw(t, "stop"),
		}
		if sc.API == "fromto" {
			sc.End = pickQuery(t, qs, "end")
			sc.InclEnd = rapid.Bool().Draw(t, "inclend")
		}
		c.Scans = append(c.Scans, sc)
	}
}

func TestC04(t *testing.T) {
	runProp(t, "C04", liveCheck(checkC04), func(t *rapid.T) *Case {
		var c *Case
		if pickU(t, "refusal?", 4) == 0 {
			// refusal clause: any non-complete option struct
			c = genTrieCase(t, trieGenOpt{})
			if c.Opt.complete() {
				c.Opt[3] = 1
				c.Opt[pickU(t, "drop", 2)+1] = Tri(pickU(t, "dropto", 2))
			}
		} else {
			c = genTrieCase(t, trieGenOpt{complete: true})
			if pickU(t, "legacy?", 5) == 0 {
				if c.spec().width == 0 {
					c.Enc = "I32"
				}
				c.HasVals = true
				c.Vals, c.VMode = genVals(t, len(c.Keys), c.Enc, false)
				c.Load = []string{"0.5.10", "0.5.11"}[pickU(t, "layout", 2)]
			}
		}
		genExtra(t, c)
		genScans(t, c, 12)
		genEarlier(t, c)
		return c
	})
}
func TestReplayC04(t *testing.T) { runReplay(t, "C04", liveCheck(checkC04)) }
