package props

import (
	"fmt"
	"strings"
	"testing"

	"pgregory.net/rapid"
)

// ---- C12 ----

func TestC12(t *testing.T) {
	runProp(t, "C12", checkC12, func(t *rapid.T) *Case {
		c := &Case{}
		fams := []famWeight{{"K1", 30}, {"K2", 20}, {"K3", 10}, {"K4", 5}, {"K5", 20}, {"K6", 5}, {"K7", 5}, {"Krand", 5}}
		keys, fam := genKeysFam(t, fams, caps())
		if pickU(t, "ladder?", 16) == 0 {
			// a long shared run around the 16-bit step limit, with every node kind after it
			L := rapid.OneOf(rapid.IntRange(65000, 66100), rapid.IntRange(30000, 131200)).Draw(t, "L")
			keys, fam = ladderKeys(L, pickU(t, "place", ladderPlacements), 0x70), "ladder"
		}
		c.Gen, c.Keys = fam, hexes(keys)
		if rapid.Bool().Draw(t, "sparse") {
			c.Block = rapid.IntRange(2, 64).Draw(t, "block")
		} else {
			c.Block = 1
		}
		c.Ints = rapid.SliceOfN(rapid.Int64Range(0, 1<<40), 2, 8).Draw(t, "offsets")
		if pickU(t, "farbase", 4) == 0 {
			c.Ints[0] = rapid.Int64Range(1<<40, 1<<62).Draw(t, "base")
		}
		genExtra(t, c)
		return c
	})
}
func TestReplayC12(t *testing.T) { runReplay(t, "C12", checkC12) }

// ---- C17 ----

// caterpillar: a binary spine, every inner node has a step of `step` bytes.
func genCaterpillar(t *rapid.T, maxN int) []string {
	n := rapid.IntRange(2, maxN).Draw(t, "n")
	if n > 1500 {
		n = 1500 // keys grow linearly along the spine
	}
	step := rapid.IntRange(0, 6).Draw(t, "step")
	fill := rapid.Byte().Draw(t, "fill")
	var keys []string
	spine := ""
	for i := 0; i < n; i++ {
		spine += strings.Repeat(string([]byte{fill}), step)
		keys = append(keys, spine+"\x10")
		spine += "\x20"
		if len(spine) > maxKeyLen-16 {
			break
		}
	}
	keys = append(keys, spine)
	return uniqSorted(keys)
}

// fan11: every inner node has exactly 11 distinct next bytes.
func genFan11(t *rapid.T, maxN int) []string {
	depth := rapid.IntRange(1, 4).Draw(t, "depth")
	seed := rapid.Uint64().Draw(t, "seed")
	rng := &sm64{seed}
	keys := []string{""}
	for d := 0; d < depth; d++ {
		var next []string
		for _, k := range keys {
			perm := append([]byte{}, fullAlpha...)
			for i := 0; i < 11; i++ {
				j := i + rng.intn(256-i)
				perm[i], perm[j] = perm[j], perm[i]
				next = append(next, k+string([]byte{perm[i]}))
			}
			if len(next) > maxN {
				break
			}
		}
		keys = next
		if len(keys) > maxN {
			break
		}
	}
	return uniqSorted(keys)
}

// distinct bitmaps: every inner node draws its own random label subset.
func genDistinctBitmaps(t *rapid.T, maxN int) []string {
	depth := rapid.IntRange(1, 5).Draw(t, "depth")
	seed := rapid.Uint64().Draw(t, "seed")
	rng := &sm64{seed}
	var out [][]byte
	var rec func(path []byte, d int)
	rec = func(path []byte, d int) {
		if len(out) >= maxN {
			return
		}
		if d == 0 {
			out = append(out, append([]byte{}, path...))
			return
		}
		mask := uint16(rng.next())
		if mask&(mask-1) == 0 {
			mask |= 0x8001
		}
		for l := 0; l < 16; l++ {
			if mask&(1<<uint(l)) != 0 {
				rec(append(append([]byte{}, path...), byte(l)), d-1)
			}
		}
	}
	rec(nil, depth)
	return nibblesToKeys(out, 0)
}

func TestC17(t *testing.T) {
	runProp(t, "C17", checkC17, func(t *rapid.T) *Case {
		c := &Case{Enc: "I32"}
		sc := sizeCap{small: 2000, big: 10000, huge: 10000}
		if thorough() {
			sc = sizeCap{small: 3000, big: 30000, huge: 100000}
		}
		maxN := drawCap(t, sc)
		var keys []string
		switch pickU(t, "c17fam", 13) {
		case 12:
			keys, c.Gen = genStepless(t), "stepless"
		case 10, 11:
			keys, c.Gen = genPeriodic(t, maxN), "periodic"
		case 0:
			keys, c.Gen = genCaterpillar(t, maxN), "caterpillar"
		case 1:
			keys, c.Gen = genFan11(t, maxN), "fan11"
		case 2:
			keys, c.Gen = genDistinctBitmaps(t, maxN), "distinct-bitmaps"
		case 3:
			keys, c.Gen = genK4(t, maxN), "K4"
		case 4:
			keys, c.Gen = genK6(t, maxN), "K6"
		case 5:
			keys, c.Gen = genK3(t, maxN), "K3"
		case 6:
			keys, c.Gen = genRandomBytes(t, maxN), "Krand"
		case 7:
			keys, c.Gen = genK1(t, maxN), "K1"
		default:
			keys, c.Gen = genK2(t, maxN), "K2"
		}
		c.Keys = hexes(keys)
		switch pickU(t, "history", 5) {
		case 0:
			c.Scrib = 1 // option variables shared with an earlier Complete build
		case 1:
			c.Scrib = 2 // loaded into an instance that held and serialised a larger index
		case 2:
			c.Scrib = 3 // built right after a build that was rejected late
		}
		// two non-empty prefixes; keep the result within the documented key length
		longest := 0
		for _, k := range keys {
			if len(k) > longest {
				longest = len(k)
			}
		}
		room := maxKeyLen - longest
		if room > 8192 {
			room = 8192
		}
		if room >= 1 {
			plen := func(label string) int {
				return rapid.OneOf(rapid.IntRange(1, room), rapid.SampledFrom([]int{1, 2, 3, 255, 256, 1024, 4096, 8192})).Draw(t, label)
			}
			mk := func(l int, fill byte, vary bool, seed uint64) Hex {
				if l > room {
					l = room
				}
				r := sm64{seed}
				b := make([]byte, l)
				for i := range b {
					b[i] = fill
					if vary {
						b[i] = byte(r.next())
					}
				}
				return Hex(b)
			}
			seed := rapid.Uint64().Draw(t, "pseed")
			c.Prefix = []Hex{
				mk(plen("p1"), rapid.Byte().Draw(t, "f1"), rapid.Bool().Draw(t, "v1"), seed),
				mk(plen("p2"), rapid.Byte().Draw(t, "f2"), rapid.Bool().Draw(t, "v2"), seed+1),
			}
		}
		return c
	})
}
func TestReplayC17(t *testing.T) { runReplay(t, "C17", checkC17) }

// ---- C16 ----

func genIndexSet(t *rapid.T) []int32 {
	const maxIdx = 1 << 20
	set := map[int32]struct{}{}
	switch pickU(t, "idxlayout", 6) {
	case 0: // empty
	case 1: // single
		set[int32(rapid.IntRange(0, maxIdx-1).Draw(t, "single"))] = struct{}{}
	case 2: // dense run(s)
		start := rapid.IntRange(0, 5000).Draw(t, "start")
		n := rapid.IntRange(1, 600).Draw(t, "n")
		for i := 0; i < n; i++ {
			set[int32(start+i)] = struct{}{}
		}
	case 3: // sparse random in a drawn range
		hi := rapid.SampledFrom([]int{64, 200, 4096, 70000, maxIdx}).Draw(t, "hi")
		for _, v := range rapid.SliceOfN(rapid.IntRange(0, hi-1), 0, 200).Draw(t, "sparse") {
			set[int32(v)] = struct{}{}
		}
	case 4: // clusters separated by empty 64-bit words
		pos := rapid.IntRange(0, 300).Draw(t, "pos")
		nc := rapid.IntRange(2, 8).Draw(t, "clusters")
		for k := 0; k < nc; k++ {
			for _, d := range rapid.SliceOfN(rapid.IntRange(0, 63), 1, 20).Draw(t, "cluster") {
				set[int32(pos+d)] = struct{}{}
			}
			pos = (pos | 63) + 1 + 64*rapid.IntRange(1, 5).Draw(t, "gapwords") // at least one empty word
			if pos >= maxIdx-64 {
				break
			}
		}
	default: // word-boundary indexes
		for _, w := range rapid.SliceOfN(rapid.IntRange(0, 300), 1, 30).Draw(t, "words") {
			for _, d := range rapid.SliceOfN(rapid.SampledFrom([]int{0, 1, 62, 63}), 1, 4).Draw(t, "edge") {
				set[int32(w*64+d)] = struct{}{}
			}
		}
	}
	out := make([]int32, 0, len(set))
	for k := range set {
		out = append(out, k)
	}
	sortInt32(out)
	return out
}

func sortInt32(a []int32) {
	for i := 1; i < len(a); i++ {
		for j := i; j > 0 && a[j-1] > a[j]; j-- {
			a[j-1], a[j] = a[j], a[j-1]
		}
	}
}

func TestC16(t *testing.T) {
	runProp(t, "C16", checkC16, func(t *rapid.T) *Case {
		c := &Case{}
		kinds := append([]string{"U16", "U32", "U64", "I16", "I32", "I64", "Struct"}, genKindNames...)
		c.Kind = kinds[pickU(t, "kind", len(kinds))]
		c.Gen = c.Kind
		c.Idx = genIndexSet(t)
		seed := rapid.Uint64().Draw(t, "eseed")
		r := sm64{seed}
		edge := []uint64{0, 1, 0x7f, 0x80, 0xff, 0x7fff, 0x8000, 0xffff, 0x7fffffff, 0x80000000, 0xffffffff, 0x7fffffffffffffff, 0x8000000000000000, 0xffffffffffffffff}
		for range c.Idx {
			v := r.next()
			if r.intn(3) == 0 {
				v = edge[r.intn(len(edge))]
			}
			c.Ints = append(c.Ints, int64(v))
		}
		c.Probe = rapid.SliceOfN(rapid.Int32Range(0, 1<<20), 1, 40).Draw(t, "probes")
		if pickU(t, "reinit", 4) == 0 {
			c.Scrib = 1
		}
		switch pickU(t, "invalid?", 6) {
		case 0: // order violation at a drawn position
			if len(c.Idx) >= 1 {
				i := rapid.IntRange(0, len(c.Idx)-1).Draw(t, "vpos")
				if rapid.Bool().Draw(t, "equal") || i == 0 {
					// duplicate: insert idx[i] again after itself
					c.Idx = append(c.Idx[:i+1], append([]int32{c.Idx[i]}, c.Idx[i+1:]...)...)
					c.Ints = append(c.Ints, 7)
				} else {
					c.Idx[i-1], c.Idx[i] = c.Idx[i], c.Idx[i-1]
				}
				c.Gen += "/order"
			}
		case 1: // length mismatch by k
			k := rapid.IntRange(1, 5).Draw(t, "k")
			if rapid.Bool().Draw(t, "more") {
				for j := 0; j < k; j++ {
					c.Ints = append(c.Ints, int64(j))
				}
			} else if len(c.Ints) >= k {
				c.Ints = c.Ints[:len(c.Ints)-k]
			} else {
				c.Ints = append(c.Ints, 1)
			}
			c.Gen += "/length"
		}
		return c
	})
}
func TestReplayC16(t *testing.T) { runReplay(t, "C16", checkC16) }

// TestC16Exhaustive: every index set of at most 3 elements within three 64-bit
// words (and every 2-element set within five words), every index of the span as
// probe, for a narrow and a wide element type.
func TestC16Exhaustive(t *testing.T) {
	st := newStats("C16")
	defer st.write()
	shard, nshards := envInt("VERIF_SHARD", 0), envInt("VERIF_NSHARDS", 1)
	span3, span2 := int32(192), int32(320)
	if !thorough() {
		span3 = 130
	}
	var n int64
	run := func(kind string, idx []int32) {
		n++
		if int(n%int64(nshards)) != shard {
			return
		}
		c := &Case{Prop: "C16", Gen: "exhaustive", Kind: kind, Idx: append([]int32{}, idx...)}
		for i := range idx {
			c.Ints = append(c.Ints, int64(uint64(0x8000000000000001)*uint64(i+1)+uint64(idx[i])))
		}
		sub := newStats("C16")
		if err := checkC16(c, sub); err != nil {
			reportEnumFailure(t, "C16", st, c, err, "index sets")
		}
		h := uint64(n)*1000003 + uint64(len(kind))
		st.doneHash(h, len(idx) >= 2 && idx[len(idx)-1]>>6 > idx[0]>>6+1)
		st.calls(int(sub.Calls))
		if n%200000 == 1 {
			st.addSample(c)
		}
	}
	kinds := []string{"U16", "I64"}
	for _, kind := range kinds {
		run(kind, nil)
		for a := int32(0); a < span2; a++ {
			run(kind, []int32{a})
			for b := a + 1; b < span2; b++ {
				run(kind, []int32{a, b})
			}
		}
		for a := int32(0); a < span3; a++ {
			for b := a + 1; b < span3; b++ {
				for c := b + 1; c < span3; c++ {
					run(kind, []int32{a, b, c})
				}
			}
		}
	}
	st.Exhaustive[fmt.Sprintf("index sets: <=2 of [0,%d) and <=3 of [0,%d), x 2 element kinds", span2, span3)] = int64(st.Evaluations)
}

// TestC12Million: one record set of 2^20+5 records (more than a million), with
// one offset per key and with blocks of 4: every record must be served.
func TestC12Million(t *testing.T) {
	st := newStats("C12")
	defer st.write()
	n := 1<<20 + 5
	keys := make([]string, n)
	for i := range keys {
		v := uint32(i) * 3
		keys[i] = string([]byte{byte(v >> 24), byte(v >> 16), byte(v >> 8), byte(v)})
	}
	for _, block := range []int{1, 4} {
		c := &Case{Prop: "C12", Gen: "million", Keys: hexes(keys), Block: block, Ints: []int64{4096, 17, 4096}, Win: n - 40}
		sub := newStats("C12")
		if err := checkC12inner(c, sub); err != nil {
			if _, ok := err.(*violation); !ok {
				t.Fatalf("HARNESS ERROR: %v", err)
			}
			c.Keys = c.Keys[n-16:] // the recipe identifies the case; keep the tail only
			path := writeReplay("C12", c)
			fmt.Printf("VIOLATION property=C12 replay=%s\n", path)
			fmt.Printf("DETAIL property=C12 record set of %d records, block size %d: %s\n", n, block, oneLine(err.Error()))
			t.Fatalf("C12 violated: %v", err)
		}
		st.calls(int(sub.Calls))
		st.doneHash(uint64(block), true)
		st.class("million_records_checked")
	}
	st.addSample(map[string]interface{}{"gen": "million", "records": n, "keys": "4-byte big-endian 3*i", "block_sizes": []int{1, 4}})
}

// concurrentRounds runs replayable rounds of concurrent independent constructions.
func concurrentRounds(t *testing.T, prop string, round func(int, *Stats) error, what string) {
	st := newStats(prop)
	defer st.write()
	rounds := 10
	if thorough() {
		rounds = 100
	}
	for r := 0; r < rounds; r++ {
		if err := round(r, st); err != nil {
			if _, ok := err.(*violation); !ok {
				t.Fatalf("HARNESS ERROR: %v", err)
			}
			path := writeReplay(prop, &Case{Prop: prop, Gen: "concurrent-round", Block: r})
			fmt.Printf("VIOLATION property=%s replay=%s\n", prop, path)
			fmt.Printf("DETAIL property=%s %s: %s\n", prop, what, oneLine(err.Error()))
			t.Fatalf("%s violated: %v", prop, err)
		}
	}
	st.addSample(map[string]interface{}{"gen": "concurrent-round", "rounds": rounds, "note": what})
}

// TestC16ConcurrentInits: arrays constructed at the same time in different goroutines.
func TestC16ConcurrentInits(t *testing.T) {
	concurrentRounds(t, "C16", concurrentArrays, "8 goroutines constructing arrays at the same time, each checks its own array on every index")
}

// TestC12ConcurrentBuilds: record indexes built at the same time in different goroutines.
func TestC12ConcurrentBuilds(t *testing.T) {
	concurrentRounds(t, "C12", concurrentIndexes, "6 goroutines building record indexes at the same time, each checks its own records")
}

// TestC17ConcurrentBuilds: filter-mode indexes built at the same time have the size they have alone.
func TestC17ConcurrentBuilds(t *testing.T) {
	concurrentRounds(t, "C17", concurrentFilterSizes, "7 goroutines building filter-mode indexes that share node shapes; every size must equal the size of the same build alone")
}

// Independent readers: lookups on separate tries at the same time, one goroutine per
// trie, every answer checked against that trie's own model (C01, C09, C10, C14).
const independentReadersNote = "8 goroutines, each reading a trie that only it uses (four information levels, I8..I64 values, half of them loaded from bytes); every Get/GetID/RangeGet/Search/typed getter answer is checked against that trie's model"

func TestC01IndependentReaders(t *testing.T) {
	concurrentRounds(t, "C01", independentReaders, independentReadersNote)
}

func TestC09IndependentReaders(t *testing.T) {
	concurrentRounds(t, "C09", independentReaders, independentReadersNote)
}

func TestC10IndependentReaders(t *testing.T) {
	concurrentRounds(t, "C10", independentReaders, independentReadersNote)
}

func TestC14IndependentReaders(t *testing.T) {
	concurrentRounds(t, "C14", independentReaders, independentReadersNote)
}

// TestC16ConcurrentReaders: built arrays of every kind read by 8 goroutines at once.
func TestC16ConcurrentReaders(t *testing.T) {
	concurrentRounds(t, "C16", concurrentArrayReaders, "8 goroutines reading the same built arrays (typed, generic with the library's and with a configured encoder, reloaded twins) through Get and GetBytes; every answer is checked against the model")
}

func TestC19IndependentReaders(t *testing.T) {
	concurrentRounds(t, "C19", independentReaders, independentReadersNote+"; every goroutine also renders its trie with String(), and the renderings must equal the one made alone")
}
