package props

import (
	"fmt"
	"reflect"
	"strconv"
	"strings"

	"github.com/openacid/slim/trie"
)

func lcp(a, b string) int {
	n := 0
	for n < len(a) && n < len(b) && a[n] == b[n] {
		n++
	}
	return n
}

func hasHighByte(keys []string) bool {
	for _, k := range keys {
		for i := 0; i < len(k); i++ {
			if k[i] >= 0x80 {
				return true
			}
		}
	}
	return false
}

func hasPrefixKey(keys []string) bool {
	for i := 1; i < len(keys); i++ {
		if strings.HasPrefix(keys[i], keys[i-1]) {
			return true
		}
	}
	return false
}

// ---------------------------------------------------------------------------
// C01: indexed keys are found with their own value.

// checkFuzzC01 is the oracle of the native fuzz target FuzzC01 (and of its replay
// files): the model-based checks of C01, C02, C10, of C09 when values are stored and
// of C03 when the case is Complete, all on the same decoded case.
func checkFuzzC01(c *Case, s *Stats) error {
	type ck struct {
		prop string
		fn   func(*Case, *Stats) error
	}
	checks := []ck{{"C01", checkC01}, {"C02", checkC02}, {"C10", checkC10}}
	if c.HasVals && c.Enc != "Dummy" {
		checks = append(checks, ck{"C09", checkC09})
	}
	if c.Opt.complete() {
		checks = append(checks, ck{"C03", checkC03})
	}
	for _, k := range checks {
		cc := *c
		cc.Gen = "fuzz-" + k.prop // the oracles themselves do not dispatch again
		if err := k.fn(&cc, s); err != nil {
			if v, ok := err.(*violation); ok {
				return viol(v.kind, "[%s oracle] %s", k.prop, v.msg)
			}
			return err
		}
	}
	return nil
}

func checkC01(c *Case, s *Stats) error {
	if c.Gen == "fuzz" {
		return checkFuzzC01(c, s)
	}
	if c.Gen == "concurrent-round" {
		// a replay: the outcome depends on the schedule, so the round is repeated
		for rep := 0; rep < 40; rep++ {
			if err := independentReaders(c.Block, s); err != nil {
				return err
			}
		}
		return nil
	}
	if strings.HasPrefix(c.Gen, "scale:") {
		return bigLeaves(s) // replay of the scale test
	}
	m := newModel(c)
	fresh, st, err := c.load()
	if err != nil {
		return err
	}
	sh, ok := shapeOf(fresh)
	classify(s, c, m, sh, ok)
	err = guard("Get/GetID on a retained key", func() error {
		for i, k := range m.Keys {
			v, found := st.Get(k)
			if !found {
				return viol("false-negative", "Get(%s) not found; retained key #%d of %d (mode %s, load %q)", q(k), i, len(m.Keys), c.Opt.mode(), c.Load)
			}
			if !valEq(v, m.Want[i]) {
				return viol("wrong-value", "Get(%s) = %v, want %v", q(k), v, m.Want[i])
			}
			if id := st.GetID(k); id < 0 {
				return viol("false-negative", "GetID(%s) = %d", q(k), id)
			}
		}
		return nil
	})
	if err != nil {
		return err
	}
	s.calls(2 * len(m.Keys))
	nt := len(m.Keys) >= 2 && ((ok && sh.Prefixes > 0) || hasPrefixKey(m.Keys) || hasHighByte(m.Keys))
	s.done(c, nt, c.Opt.mode()+c.Gen)
	return nil
}

// ---------------------------------------------------------------------------
// C02: RangeGet maps every indexed key to the value of its range.

func checkC02(c *Case, s *Stats) error {
	m := newModel(c)
	fresh, st, err := c.load()
	if err != nil {
		return err
	}
	sh, ok := shapeOf(fresh)
	classify(s, c, m, sh, ok)
	err = guard("RangeGet on an indexed key", func() error {
		for i, k := range m.AllKeys {
			v, found := st.RangeGet(k)
			if !found {
				return viol("range-miss", "RangeGet(%s) not found; input key #%d (retained=%v, mode %s)", q(k), i, m.Src[m.Cover[i]] == i, c.Opt.mode())
			}
			if !valEq(v, m.Want[m.Cover[i]]) {
				return viol("range-wrong", "RangeGet(%s) = %v, want %v (input key #%d, retained=%v)", q(k), v, m.Want[m.Cover[i]], i, m.Src[m.Cover[i]] == i)
			}
		}
		return nil
	})
	if err != nil {
		return err
	}
	s.calls(len(m.AllKeys))
	// non-trivial: a dropped key that shares a longer prefix with the next
	// retained key than with its own retained predecessor.
	nt := false
	for i, k := range m.AllKeys {
		ci := m.Cover[i]
		if m.Src[ci] == i || ci+1 >= len(m.Keys) {
			continue
		}
		if lcp(k, m.Keys[ci+1]) > lcp(k, m.Keys[ci]) {
			nt = true
			break
		}
	}
	if m.Dropped > 0 {
		s.class("has_dropped_keys")
	}
	if nt {
		s.class("dropped_key_leans_right")
	}
	s.done(c, nt, c.Opt.mode())
	return nil
}

// ---------------------------------------------------------------------------
// C03: Complete mode is an exact ordered map.

func nontrivialAbsent(m *Model, qs string) bool {
	if m.find(qs) >= 0 {
		return false
	}
	i := m.floor(qs)
	if i >= 0 && lcp(qs, m.Keys[i]) >= 1 {
		return true
	}
	if i+1 < len(m.Keys) && lcp(qs, m.Keys[i+1]) >= 1 {
		return true
	}
	return false
}

func checkExact(st *trie.SlimTrie, m *Model, qs string, valued bool) error {
	fi := m.find(qs)
	v, found := st.Get(qs)
	if found != (fi >= 0) {
		return viol("exactness", "Get(%s) found=%v, model present=%v", q(qs), found, fi >= 0)
	}
	if found && !valEq(v, m.Want[fi]) {
		return viol("wrong-value", "Get(%s) = %v, want %v", q(qs), v, m.Want[fi])
	}
	if !found && v != nil {
		return viol("exactness", "Get(%s) not found but value %v", q(qs), v)
	}
	id := st.GetID(qs)
	if (id >= 0) != (fi >= 0) {
		return viol("exactness", "GetID(%s) = %d, model present=%v", q(qs), id, fi >= 0)
	}
	fl := m.floor(qs)
	rv, rfound := st.RangeGet(qs)
	if rfound != (fl >= 0) {
		return viol("range", "RangeGet(%s) found=%v, model floor index %d", q(qs), rfound, fl)
	}
	if rfound && !valEq(rv, m.Want[fl]) {
		return viol("range", "RangeGet(%s) = %v, want %v (floor key %s)", q(qs), rv, m.Want[fl], q(m.Keys[fl]))
	}
	if valued {
		l, e, r := st.Search(qs)
		wl, we, wr := m.want(m.lower(qs)), m.want(fi), m.want(m.higher(qs))
		if !valEq(l, wl) || !valEq(e, we) || !valEq(r, wr) {
			return viol("search", "Search(%s) = (%v,%v,%v), want (%v,%v,%v)", q(qs), l, e, r, wl, we, wr)
		}
	}
	return nil
}

func checkC03(c *Case, s *Stats) error {
	if !c.Opt.complete() {
		return fmt.Errorf("C03 case must be Complete")
	}
	m := newModel(c)
	fresh, st, err := c.load()
	if err != nil {
		return err
	}
	sh, ok := shapeOf(fresh)
	classify(s, c, m, sh, ok)
	valued := c.HasVals && c.Enc != "Dummy" && c.Enc != "OptU16"
	qs := queries(m.AllKeys, c.Win, c.Extra, false)
	nt := 0
	err = guard("lookup on a Complete trie", func() error {
		for _, k := range m.Keys {
			if e := checkExact(st, m, k, valued); e != nil {
				return e
			}
		}
		for _, x := range qs {
			if e := checkExact(st, m, x, valued); e != nil {
				return e
			}
			if nontrivialAbsent(m, x) {
				nt++
			}
		}
		return nil
	})
	if err != nil {
		return err
	}
	s.calls(4 * (len(qs) + len(m.Keys)))
	s.classN("absent_queries_sharing_prefix", int64(nt))
	s.done(c, nt > 0, c.Gen)
	return nil
}

// ---------------------------------------------------------------------------
// C09: Search on an indexed key returns exact neighbours in every mode.

func checkC09(c *Case, s *Stats) error {
	if c.Gen == "concurrent-round" {
		// a replay: the outcome depends on the schedule, so the round is repeated
		for rep := 0; rep < 40; rep++ {
			if err := independentReaders(c.Block, s); err != nil {
				return err
			}
		}
		return nil
	}
	m := newModel(c)
	fresh, st, err := c.load()
	if err != nil {
		return err
	}
	sh, ok := shapeOf(fresh)
	classify(s, c, m, sh, ok)
	err = guard("Search on a retained key", func() error {
		for i, k := range m.Keys {
			l, e, r := st.Search(k)
			wl, we, wr := m.want(i-1), m.want(i), nilIfEnd(m, i+1)
			if !valEq(l, wl) || !valEq(e, we) || !valEq(r, wr) {
				return viol("search", "Search(%s) = (%v,%v,%v), want (%v,%v,%v); retained key #%d of %d, mode %s", q(k), l, e, r, wl, we, wr, i, len(m.Keys), c.Opt.mode())
			}
		}
		return nil
	})
	if err != nil {
		return err
	}
	s.calls(len(m.Keys))
	nt := len(m.Keys) >= 3 && ok && (sh.Big > 0 || sh.ShortCnt > 0 || hasPrefixKey(m.Keys))
	s.done(c, nt, c.Opt.mode())
	return nil
}

func nilIfEnd(m *Model, i int) interface{} {
	if i >= len(m.Keys) {
		return nil
	}
	return m.Want[i]
}

// ---------------------------------------------------------------------------
// C10: lookups are total and mutually consistent.

func vkey(v interface{}) string { return fmt.Sprintf("%T:%v", v, v) }

func checkC10(c *Case, s *Stats) error {
	if c.Gen == "concurrent-round" {
		// a replay: the outcome depends on the schedule, so the round is repeated
		for rep := 0; rep < 40; rep++ {
			if err := independentReaders(c.Block, s); err != nil {
				return err
			}
		}
		return nil
	}
	m := newModel(c)
	fresh, st, err := c.load()
	if err != nil {
		return err
	}
	sh, ok := shapeOf(fresh)
	classify(s, c, m, sh, ok)
	valued := c.HasVals && c.Enc != "Dummy" && c.Enc != "OptU16"
	supplied := map[string]struct{}{}
	if c.HasVals {
		sp := c.spec()
		for _, p := range c.Vals {
			supplied[vkey(sp.want([]byte(p)))] = struct{}{}
		}
	}
	isSupplied := func(v interface{}) bool {
		if !c.HasVals {
			return v == nil
		}
		_, ok := supplied[vkey(v)]
		return ok
	}
	qs := queries(m.AllKeys, c.Win, c.Extra, true)
	fp, inStep := 0, 0
	for _, x := range qs {
		x := x
		err := guardHang("C10", c, s, fmt.Sprintf("lookup of %s", q(x)), func() error {
			v, found := st.Get(x)
			id := st.GetID(x)
			if found != (id >= 0) {
				return viol("inconsistent", "Get(%s) found=%v but GetID=%d", q(x), found, id)
			}
			if !found && v != nil {
				return viol("inconsistent", "Get(%s) not found but value %v", q(x), v)
			}
			if found && !isSupplied(v) {
				return viol("foreign-value", "Get(%s) = %v which was never supplied", q(x), v)
			}
			rv, rfound := st.RangeGet(x)
			if found && (!rfound || !valEq(rv, v)) {
				return viol("inconsistent", "Get(%s) = %v but RangeGet = (%v,%v)", q(x), v, rv, rfound)
			}
			if rfound && !isSupplied(rv) {
				return viol("foreign-value", "RangeGet(%s) = %v which was never supplied", q(x), rv)
			}
			if !rfound && rv != nil {
				return viol("inconsistent", "RangeGet(%s) not found but value %v", q(x), rv)
			}
			l, e, r := st.Search(x)
			if valued {
				if found != (e != nil) {
					return viol("inconsistent", "Get(%s) found=%v but Search eq=%v", q(x), found, e)
				}
				if found && !valEq(e, v) {
					return viol("inconsistent", "Get(%s) = %v but Search eq = %v", q(x), v, e)
				}
			}
			for _, sv := range []interface{}{l, e, r} {
				if sv != nil && !isSupplied(sv) {
					return viol("foreign-value", "Search(%s) returned %v which was never supplied", q(x), sv)
				}
			}
			if found && m.find(x) < 0 {
				fp++
			}
			return nil
		})
		if err != nil {
			return err
		}
		if nontrivialAbsent(m, x) {
			inStep++
		}
	}
	s.calls(4 * len(qs))
	s.classN("false_positives_seen", int64(fp))
	if fp > 0 {
		s.class("cases_with_false_positive")
	}
	s.done(c, fp > 0 || inStep > 0, c.Opt.mode())
	return nil
}

// ---------------------------------------------------------------------------
// C13: storing more key information only removes false positives.

func checkC13(c *Case, s *Stats) error {
	m := newModel(c)
	type built struct {
		name string
		st   *trie.SlimTrie
	}
	mk := func(inner, leaf, complete Tri) (*trie.SlimTrie, error) {
		cc := *c
		cc.Opt = OptSpec{c.Opt[0], inner, leaf, complete}
		_, st, err := cc.load()
		return st, err
	}
	var ts [4]built
	var err error
	names := []string{"filter", "inner", "leaf", "complete"}
	specs := [][3]Tri{{0, 0, 0}, {2, 0, 0}, {0, 2, 0}, {0, 0, 2}}
	// alternative spellings, selected by Scrib so that all spellings get used
	if c.Scrib&1 == 1 {
		specs[3] = [3]Tri{2, 2, 0}
	}
	if c.Scrib&2 == 2 {
		specs[0] = [3]Tri{1, 1, 1}
	}
	if c.Scrib&4 == 4 {
		// Complete is documented to imply both prefix options, whatever they say explicitly
		specs[3] = [][3]Tri{{1, 1, 2}, {1, 0, 2}, {0, 1, 2}, {2, 1, 2}}[(c.Scrib>>3)%4]
		specs[1] = [3]Tri{2, 1, 1}
		specs[2] = [3]Tri{1, 2, 0}
	}
	for i := range ts {
		ts[i].name = names[i]
		ts[i].st, err = mk(specs[i][0], specs[i][1], specs[i][2])
		if err != nil {
			return err
		}
	}
	sh, ok := shapeOf(ts[0].st)
	classify(s, c, m, sh, ok)
	// stronger -> weaker pairs: complete ⊒ inner, leaf ⊒ filter; inner ⊒ filter; leaf ⊒ filter
	pairs := [][2]int{{3, 1}, {3, 2}, {3, 0}, {1, 0}, {2, 0}}
	qs := queries(m.AllKeys, c.Win, c.Extra, false)
	removed := 0
	type res struct {
		v interface{}
		f bool
	}
	for _, x := range append(append([]string{}, m.Keys...), qs...) {
		x := x
		err := guard("Get in four modes", func() error {
			var r [4]res
			for i := range ts {
				r[i].v, r[i].f = ts[i].st.Get(x)
			}
			fi := m.find(x)
			if r[3].f != (fi >= 0) {
				return viol("complete-inexact", "Complete Get(%s) found=%v, retained=%v", q(x), r[3].f, fi >= 0)
			}
			if fi >= 0 {
				for i := range ts {
					if !r[i].f || !valEq(r[i].v, m.Want[fi]) {
						return viol("retained-disagree", "mode %s Get(%s) = (%v,%v), want (%v,true)", ts[i].name, q(x), r[i].v, r[i].f, m.Want[fi])
					}
				}
			}
			for _, p := range pairs {
				a, b := p[0], p[1]
				if r[a].f {
					if !r[b].f {
						return viol("not-monotone", "Get(%s) found in %s but not in %s", q(x), ts[a].name, ts[b].name)
					}
					if !valEq(r[a].v, r[b].v) {
						return viol("not-monotone", "Get(%s) = %v in %s but %v in %s", q(x), r[a].v, ts[a].name, r[b].v, ts[b].name)
					}
				} else if r[b].f {
					removed++
				}
			}
			return nil
		})
		if err != nil {
			return err
		}
	}
	s.calls(4 * (len(qs) + len(m.Keys)))
	s.classN("false_positives_removed", int64(removed))
	s.done(c, removed > 0, c.Gen)
	return nil
}

// ---------------------------------------------------------------------------
// C14: typed getters agree with Get.

func checkC14(c *Case, s *Stats) error {
	if c.Gen == "concurrent-round" {
		// a replay: the outcome depends on the schedule, so the round is repeated
		for rep := 0; rep < 40; rep++ {
			if err := independentReaders(c.Block, s); err != nil {
				return err
			}
		}
		return nil
	}
	if strings.HasPrefix(c.Gen, "scale:") {
		return hugeI64(s) // replay of the scale test
	}
	m := newModel(c)
	fresh, st, err := c.load()
	if err != nil {
		return err
	}
	sh, ok := shapeOf(fresh)
	classify(s, c, m, sh, ok)
	qs := queries(m.AllKeys, c.Win, c.Extra, false)
	neg, hits := 0, 0
	for _, x := range append(append([]string{}, m.AllKeys...), qs...) {
		x := x
		err := guard("typed getter", func() error {
			v, found := st.Get(x)
			var tv int64
			var tf bool
			var gv int64
			switch c.Enc {
			case "I8":
				a, f := st.GetI8(x)
				tv, tf = int64(a), f
				if found {
					gv = int64(v.(int8))
				}
			case "I16":
				a, f := st.GetI16(x)
				tv, tf = int64(a), f
				if found {
					gv = int64(v.(int16))
				}
			case "I32":
				a, f := st.GetI32(x)
				tv, tf = int64(a), f
				if found {
					gv = int64(v.(int32))
				}
			case "I64":
				a, f := st.GetI64(x)
				tv, tf = a, f
				if found {
					gv = v.(int64)
				}
			default:
				return fmt.Errorf("C14 needs an integer encoder, got %s", c.Enc)
			}
			if tf != found {
				return viol("typed-getter", "Get%s(%s) found=%v but Get found=%v", c.Enc, q(x), tf, found)
			}
			if tv != gv {
				return viol("typed-getter", "Get%s(%s) = %d but Get = %d", c.Enc, q(x), tv, gv)
			}
			if i := m.find(x); i >= 0 {
				// anchor to the model as well, so that a common fault cannot hide
				if !found || !valEq(v, m.Want[i]) {
					return viol("typed-getter", "Get(%s) = (%v,%v), want (%v,true)", q(x), v, found, m.Want[i])
				}
			}
			if found {
				hits++
				if gv < 0 {
					neg++
				}
			}
			return nil
		})
		if err != nil {
			return err
		}
	}
	// history: the SAME object, whose typed getters have just been used, is
	// loaded with another trie's bytes; the typed getters must follow.
	if len(c.Pool) > 0 {
		other := *c.Pool[0]
		other.Enc = c.Enc
		om := newModel(&other)
		stream, err := streamOf(&other)
		if err != nil {
			return err
		}
		err = guard("Unmarshal into an instance whose typed getters were used", func() error {
			if e := st.Unmarshal(stream); e != nil {
				return viol("unmarshal", "Unmarshal of a valid stream failed: %v", e)
			}
			for _, x := range append(append([]string{}, om.AllKeys...), m.AllKeys...) {
				v, found := st.Get(x)
				var tv int64
				var tf bool
				var gv int64
				switch c.Enc {
				case "I8":
					a, f := st.GetI8(x)
					tv, tf = int64(a), f
					if found {
						gv = int64(v.(int8))
					}
				case "I16":
					a, f := st.GetI16(x)
					tv, tf = int64(a), f
					if found {
						gv = int64(v.(int16))
					}
				case "I32":
					a, f := st.GetI32(x)
					tv, tf = int64(a), f
					if found {
						gv = int64(v.(int32))
					}
				default:
					a, f := st.GetI64(x)
					tv, tf = a, f
					if found {
						gv = v.(int64)
					}
				}
				if tf != found || tv != gv {
					return viol("typed-getter", "after reloading the instance with another trie: Get%s(%s) = (%d,%v) but Get = (%d,%v)", c.Enc, q(x), tv, tf, gv, found)
				}
				if i := om.find(x); i >= 0 && (!found || !valEq(v, om.Want[i])) {
					return viol("typed-getter", "after reload: Get(%s) = (%v,%v), want (%v,true)", q(x), v, found, om.Want[i])
				}
			}
			return nil
		})
		if err != nil {
			return err
		}
		s.class("reload_history_checked")
	}
	s.calls(2 * (len(qs) + len(m.AllKeys)))
	s.classN("hits_negative", int64(neg))
	s.done(c, neg > 0 && m.Dropped > 0, c.Enc+c.Opt.mode())
	return nil
}

// ---------------------------------------------------------------------------
// C18: Stat.

func checkStat(st *trie.SlimTrie, wantKeys, inputKeys int, what string) error {
	stat := st.Stat()
	if stat == nil {
		return viol("stat", "%s: Stat() returned nil", what)
	}
	if int(stat.KeyCnt) != wantKeys {
		return viol("stat", "%s: KeyCnt=%d, want %d", what, stat.KeyCnt, wantKeys)
	}
	if int(stat.LevelCnt) != len(stat.Levels) || len(stat.Levels) == 0 {
		return viol("stat", "%s: LevelCnt=%d but %d levels", what, stat.LevelCnt, len(stat.Levels))
	}
	l0 := stat.Levels[0]
	if l0.Total != 0 || l0.Inner != 0 || l0.Leaf != 0 {
		return viol("stat", "%s: level 0 is %+v", what, l0)
	}
	for i, l := range stat.Levels {
		if l.Total != l.Inner+l.Leaf {
			return viol("stat", "%s: level %d: total %d != inner %d + leaf %d", what, i, l.Total, l.Inner, l.Leaf)
		}
		if i > 0 {
			p := stat.Levels[i-1]
			if l.Total < p.Total || l.Inner < p.Inner || l.Leaf < p.Leaf {
				return viol("stat", "%s: level %d decreases: %+v after %+v", what, i, l, p)
			}
		}
	}
	last := stat.Levels[len(stat.Levels)-1]
	if stat.NodeCnt != last.Total {
		return viol("stat", "%s: NodeCnt=%d but last level total=%d", what, stat.NodeCnt, last.Total)
	}
	if last.Leaf != stat.KeyCnt {
		return viol("stat", "%s: last level leaf=%d but KeyCnt=%d", what, last.Leaf, stat.KeyCnt)
	}
	if wantKeys == 0 && stat.NodeCnt != 0 {
		return viol("stat", "%s: empty trie has NodeCnt=%d", what, stat.NodeCnt)
	}
	// "(1 key, 1 node) for a single key" is about a trie built from ONE key. A
	// trie that retains one key out of several (de-duplication) keeps the inner
	// nodes that separate it from the dropped keys, so only inputKeys == 1 is asserted.
	if inputKeys == 1 && stat.NodeCnt != 1 {
		return viol("stat", "%s: single-key trie has NodeCnt=%d", what, stat.NodeCnt)
	}
	if wantKeys >= 1 && stat.NodeCnt < stat.KeyCnt {
		return viol("stat", "%s: NodeCnt=%d < KeyCnt=%d", what, stat.NodeCnt, stat.KeyCnt)
	}
	return nil
}

func checkC18(c *Case, s *Stats) error {
	m := newModel(c)
	fresh, st, err := c.load()
	if err != nil {
		return err
	}
	sh, ok := shapeOf(fresh)
	classify(s, c, m, sh, ok)
	var levels int
	err = guardHang("C18", c, s, "Stat", func() error {
		if e := checkStat(fresh, len(m.Keys), len(m.AllKeys), "fresh"); e != nil {
			return e
		}
		if st != fresh {
			if e := checkStat(st, len(m.Keys), len(m.AllKeys), "loaded("+c.Load+")"); e != nil {
				return e
			}
			if c.Load == "reload" || c.Load == "proto" || c.Load == "over" {
				if !reflect.DeepEqual(fresh.Stat(), st.Stat()) {
					return viol("stat", "Stat changed by round trip: %+v vs %+v", fresh.Stat(), st.Stat())
				}
			}
		}
		levels = len(fresh.Stat().Levels)
		// a Stat report belongs to the caller: scribbling over one must not change the next
		s1 := st.Stat()
		snap := fmt.Sprintf("%+v", *s1)
		s1.KeyCnt, s1.NodeCnt, s1.LevelCnt = -7, -8, -9
		for i := range s1.Levels {
			s1.Levels[i].Total, s1.Levels[i].Inner, s1.Levels[i].Leaf = -1, -2, -3
		}
		if again := fmt.Sprintf("%+v", *st.Stat()); again != snap {
			return viol("stat", "modifying a returned Stat changed the next Stat(): %s -> %s", snap, again)
		}
		// independent observable: String() renders one line per node
		if st.Stat().NodeCnt > 3000 || (c.HasVals && !isRenderEnc(c.Enc)) {
			return nil // String() is quadratic in the node count; C19 covers large tries
		}
		str := st.String()
		lines := 0
		if str != "" {
			lines = strings.Count(str, "\n") + 1
		}
		if lines != int(st.Stat().NodeCnt) {
			return viol("stat", "NodeCnt=%d but String() renders %d nodes", st.Stat().NodeCnt, lines)
		}
		// exact per-level counts: the rendering gives every node's depth and kind
		return checkLevelsAgainstRendering(st.Stat(), str)
	})
	if err != nil {
		return err
	}
	s.calls(3)
	// non-trivial: >=3 levels beyond level 0 and a level whose first node is a leaf is
	// approximated by "some level has leaf>0 before the last level"
	stt := fresh.Stat()
	leafEarly := false
	for i := 1; i < len(stt.Levels)-1; i++ {
		if stt.Levels[i].Leaf > 0 {
			leafEarly = true
		}
	}
	s.class(fmt.Sprintf("levels=%s", bucket(levels)))
	s.done(c, levels >= 4 && leafEarly, c.Load+c.Opt.mode())
	return nil
}

// checkLevelsAgainstRendering: Levels[d] must be the number of nodes (total,
// inner, leaf) at depth <= d, the root being at depth 1; depth and kind of every
// node are read from the String() rendering (a separate code path).
func checkLevelsAgainstRendering(stat *trie.Stat, str string) error {
	if str == "" {
		return nil
	}
	var cols []int // idCol of the open ancestors
	var total, inner, leaf []int32
	for ln, line := range strings.Split(str, "\n") {
		n, err := parseRenderedLine(line)
		if err != nil {
			return viol("render", "line %d: %v", ln, err)
		}
		for len(cols) > 0 && cols[len(cols)-1] > n.indent {
			cols = cols[:len(cols)-1]
		}
		d := len(cols) + 1
		for len(total) <= d {
			total, inner, leaf = append(total, 0), append(inner, 0), append(leaf, 0)
		}
		total[d]++
		if n.leaf {
			leaf[d]++
		} else {
			inner[d]++
		}
		cols = append(cols, n.idCol)
	}
	for d := 1; d < len(total); d++ {
		total[d] += total[d-1]
		inner[d] += inner[d-1]
		leaf[d] += leaf[d-1]
	}
	if len(stat.Levels) != len(total) {
		return viol("stat", "Stat reports %d levels %+v, the rendered tree has depth %d (cumulative totals %v)", len(stat.Levels)-1, stat.Levels, len(total)-1, total)
	}
	for d := range total {
		l := stat.Levels[d]
		if l.Total != total[d] || l.Inner != inner[d] || l.Leaf != leaf[d] {
			return viol("stat", "level %d: Stat reports %+v, the rendered tree has (total %d, inner %d, leaf %d) nodes down to that depth; all levels: %+v", d, l, total[d], inner[d], leaf[d], stat.Levels)
		}
	}
	return nil
}

// isRenderEnc: values of these encoders render on one line without '#', '=' or newlines.
func isRenderEnc(enc string) bool {
	switch enc {
	case "I8", "I16", "I32", "I64", "U16", "U32", "U64", "Int", "OptU16", "StrictU32":
		return true
	}
	return false
}

func bucket(n int) string {
	switch {
	case n <= 1:
		return "1"
	case n <= 3:
		return "2-3"
	case n <= 6:
		return "4-6"
	case n <= 12:
		return "7-12"
	}
	return ">12"
}

// ---------------------------------------------------------------------------
// C19: String().

// parseRendering extracts node ids and leaf values from String() output.
// A node is rendered as "...->#<id>[+step][*fanout][=value]"; the root has no "->".
func parseRendering(str string) (ids []int, leafVals []string, err error) {
	if str == "" {
		return nil, nil, nil
	}
	for ln, line := range strings.Split(str, "\n") {
		i := strings.LastIndex(line, "#")
		if i < 0 {
			return nil, nil, fmt.Errorf("line %d has no node id: %q", ln, line)
		}
		rest := line[i+1:]
		j := 0
		for j < len(rest) && rest[j] >= '0' && rest[j] <= '9' {
			j++
		}
		if j == 0 {
			return nil, nil, fmt.Errorf("line %d has no numeric node id: %q", ln, line)
		}
		id, _ := strconv.Atoi(rest[:j])
		ids = append(ids, id)
		if k := strings.Index(rest[j:], "="); k >= 0 {
			leafVals = append(leafVals, rest[j+k+1:])
		}
	}
	return ids, leafVals, nil
}

// renderedNode is one parsed line of String().
type renderedNode struct {
	indent int
	label  string // bits of the incoming label; "" for the empty label or the root
	isRoot bool
	id     int
	step   int
	fanout int
	leaf   bool
	val    string
	idCol  int // column where the children's indentation starts
}

func parseRenderedLine(line string) (n renderedNode, err error) {
	i := 0
	for i < len(line) && line[i] == ' ' {
		i++
	}
	n.indent = i
	rest := line[i:]
	if strings.HasPrefix(rest, "-") {
		j := strings.Index(rest, "->")
		if j < 0 {
			return n, fmt.Errorf("no '->' in %q", line)
		}
		n.label = rest[1:j]
		rest = rest[j+2:]
		i += j + 2
	} else {
		n.isRoot = true
	}
	if !strings.HasPrefix(rest, "#") {
		return n, fmt.Errorf("no node id in %q", line)
	}
	j := 1
	for j < len(rest) && rest[j] >= '0' && rest[j] <= '9' {
		j++
	}
	n.id, _ = strconv.Atoi(rest[1:j])
	n.idCol = i + j
	rest = rest[j:]
	if strings.HasPrefix(rest, "+") {
		j = 1
		for j < len(rest) && rest[j] >= '0' && rest[j] <= '9' {
			j++
		}
		n.step, _ = strconv.Atoi(rest[1:j])
		rest = rest[j:]
	}
	if strings.HasPrefix(rest, "*") {
		j = 1
		for j < len(rest) && rest[j] >= '0' && rest[j] <= '9' {
			j++
		}
		n.fanout, _ = strconv.Atoi(rest[1:j])
		rest = rest[j:]
	}
	if strings.HasPrefix(rest, "=") {
		n.leaf = true
		n.val = rest[1:]
	} else if rest != "" {
		return n, fmt.Errorf("trailing %q in %q", rest, line)
	}
	return n, nil
}

func keyBits(k string, from, n int) (string, bool) {
	if from+n > 8*len(k) {
		return "", false
	}
	var sb strings.Builder
	for i := from; i < from+n; i++ {
		if k[i>>3]&(0x80>>uint(i&7)) != 0 {
			sb.WriteByte('1')
		} else {
			sb.WriteByte('0')
		}
	}
	return sb.String(), true
}

// checkRenderedLabels verifies that the labels and steps on the path to the
// j-th leaf spell the j-th retained key: the documented line format is
// <income-label>-><node-id>+<step>*<fanOut-count>=<value>.
func checkRenderedLabels(str string, m *Model, innerPrefixMode bool) error {
	if str == "" {
		return nil
	}
	type frame struct {
		n   renderedNode
		pos int // bit position in the key after this node's incoming label
	}
	var stack []frame
	leafNo := 0
	for ln, line := range strings.Split(str, "\n") {
		n, err := parseRenderedLine(line)
		if err != nil {
			return viol("render", "line %d: %v", ln, err)
		}
		for len(stack) > 0 && stack[len(stack)-1].n.idCol > n.indent {
			stack = stack[:len(stack)-1]
		}
		if n.isRoot != (len(stack) == 0) {
			return viol("render", "line %d: indentation does not form a tree: %q", ln, line)
		}
		// every leaf below this line shares the path; check the label against the NEXT leaf's key
		if leafNo >= len(m.Keys) {
			return viol("render", "line %d: more leaves rendered than retained keys", ln)
		}
		pos := 0
		if len(stack) > 0 {
			parent := stack[len(stack)-1]
			pos = parent.pos
			if innerPrefixMode {
				if parent.n.step > 0 {
					pos = pos&^7 + parent.n.step
				}
			} else {
				pos += parent.n.step
			}
			// the incoming label of this node
			k := m.Keys[leafNo]
			if n.label == "" {
				if pos != 8*len(k) {
					return viol("render", "line %d: empty label at bit %d but the next key %s has %d bits", ln, pos, q(k), 8*len(k))
				}
			} else {
				bits, ok := keyBits(k, pos, len(n.label))
				if !ok || bits != n.label {
					return viol("render", "line %d: label %q at bit %d does not match key %s (bits %q)", ln, n.label, pos, q(k), bits)
				}
				pos += len(n.label)
			}
		}
		stack = append(stack, frame{n, pos})
		if n.leaf {
			leafNo++
		}
	}
	return nil
}

func checkC19(c *Case, s *Stats) error {
	if c.Gen == "concurrent-round" {
		// a replay: the outcome depends on the schedule, so the round is repeated
		for rep := 0; rep < 40; rep++ {
			if err := independentReaders(c.Block, s); err != nil {
				return err
			}
		}
		return nil
	}
	m := newModel(c)
	fresh, st, err := c.load()
	if err != nil {
		return err
	}
	sh, ok := shapeOf(fresh)
	classify(s, c, m, sh, ok)
	err = guard("String", func() error {
		str := st.String()
		ids, leafVals, perr := parseRendering(str)
		if perr != nil {
			return viol("render", "cannot parse rendering: %v", perr)
		}
		nodes := int(st.Stat().NodeCnt)
		if len(ids) != nodes {
			return viol("render", "String() renders %d nodes, trie has %d (ShortSize=%d, big=%d)", len(ids), nodes, sh.ShortSize, sh.Big)
		}
		seen := make([]bool, nodes)
		for _, id := range ids {
			if id < 0 || id >= nodes {
				return viol("render", "node id %d out of range 0..%d", id, nodes-1)
			}
			if seen[id] {
				return viol("render", "node id %d rendered twice", id)
			}
			seen[id] = true
		}
		if len(leafVals) != len(m.Keys) {
			return viol("render", "%d leaf lines, %d retained keys", len(leafVals), len(m.Keys))
		}
		for i, lv := range leafVals {
			want := fmt.Sprintf("%v", m.Want[i])
			if lv != want {
				return viol("render", "leaf line %d shows %q, want %q (retained key %s)", i, lv, want, q(m.Keys[i]))
			}
		}
		if e := checkRenderedLabels(str, m, c.Opt.inner()); e != nil {
			return e
		}
		if st != fresh {
			if fs := fresh.String(); fs != str {
				return viol("render", "loaded(%s) trie renders differently from the fresh one", c.Load)
			}
		}
		return nil
	})
	if err != nil {
		return err
	}
	s.calls(1)
	nt := ok && sh.ShortCnt > 0
	s.done(c, nt, fmt.Sprintf("short%d", sh.ShortSize))
	return nil
}
