package props

import (
	"fmt"
	"testing"

	"github.com/openacid/slim/trie"
)

var fourModes = []OptSpec{{0, 0, 0, 0}, {0, 2, 0, 0}, {0, 0, 2, 0}, {0, 0, 0, 2}}
var fourModeNames = []string{"filter", "inner", "leaf", "complete"}

func smallSpecs() []exhaustSpec {
	if thorough() {
		return []exhaustSpec{
			{"{00,01,10,ff}^<=2,<=5keys", []byte{0x00, 0x01, 0x10, 0xff}, 2, 5},
			{"{00,80,ff}^<=3,<=4keys", []byte{0x00, 0x80, 0xff}, 3, 4},
			{"{07,08}^<=4,<=4keys", []byte{0x07, 0x08}, 4, 4},
		}
	}
	return []exhaustSpec{
		{"{00,01,10,ff}^<=2,<=4keys", []byte{0x00, 0x01, 0x10, 0xff}, 2, 4},
		{"{7f,80}^<=3,<=4keys", []byte{0x7f, 0x80}, 3, 4},
	}
}

func buildVariant(v *smallVariant, o OptSpec) (*trie.SlimTrie, error) {
	cc := *v.c
	cc.Opt = OptSpec{v.dedup, o[1], o[2], o[3]}
	var st *trie.SlimTrie
	err := guard("NewSlimTrie", func() error {
		var e error
		st, e = cc.build()
		if e != nil {
			return viol("build", "NewSlimTrie rejected valid input: %v", e)
		}
		return nil
	})
	return st, err
}

// runSmallEnum is the shared body of the small-universe enumerators.
func runSmallEnum(t *testing.T, prop string, visit func(st *Stats, v *smallVariant, u []string) error) {
	st := newStats(prop)
	defer st.write()
	shard, nshards := envInt("VERIF_SHARD", 0), envInt("VERIF_NSHARDS", 1)
	for _, sp := range smallSpecs() {
		sets, variants, fail, failCase := enumSmall(sp, shard, nshards, OptSpec{}, func(v *smallVariant, u []string) error {
			err := visit(st, v, u)
			st.doneHash(variantHash(sp.name, v, 0), len(v.keys) >= 2)
			if v.setNo%40000 == 1 && v.pat == 0 {
				st.addSample(v.c)
			}
			return err
		})
		st.mu.Lock()
		st.Exhaustive[sp.name+" key sets"] += sets
		st.Exhaustive[sp.name+" variants (dedup x value pattern)"] += variants
		st.mu.Unlock()
		if fail != nil {
			reportEnumFailure(t, prop, st, failCase, fail, sp.name)
		}
	}
}

// TestC02Exhaustive: RangeGet on every input key, in four modes, for every small variant.
func TestC02Exhaustive(t *testing.T) {
	runSmallEnum(t, "C02", func(st *Stats, v *smallVariant, u []string) error {
		m := newModel(v.c)
		for mi, o := range fourModes {
			tr, err := buildVariant(v, o)
			if err != nil {
				return err
			}
			err = guard("RangeGet", func() error {
				for i, k := range m.AllKeys {
					got, f := tr.RangeGet(k)
					if !f || !valEq(got, m.Want[m.Cover[i]]) {
						v.c.Opt = OptSpec{v.dedup, o[1], o[2], o[3]}
						return viol("range-wrong", "mode %s: RangeGet(%s) = (%v,%v), want (%v,true)", fourModeNames[mi], q(k), got, f, m.Want[m.Cover[i]])
					}
				}
				return nil
			})
			if err != nil {
				return err
			}
		}
		st.calls(4 * len(m.AllKeys))
		return nil
	})
}

// TestC09Exhaustive: Search on every retained key, in four modes.
func TestC09Exhaustive(t *testing.T) {
	runSmallEnum(t, "C09", func(st *Stats, v *smallVariant, u []string) error {
		if !v.c.HasVals {
			return nil
		}
		m := newModel(v.c)
		for mi, o := range fourModes {
			tr, err := buildVariant(v, o)
			if err != nil {
				return err
			}
			err = guard("Search", func() error {
				for i, k := range m.Keys {
					l, e, r := tr.Search(k)
					wl, we, wr := m.want(i-1), m.want(i), nilIfEnd(m, i+1)
					if !valEq(l, wl) || !valEq(e, we) || !valEq(r, wr) {
						v.c.Opt = OptSpec{v.dedup, o[1], o[2], o[3]}
						return viol("search", "mode %s: Search(%s) = (%v,%v,%v), want (%v,%v,%v)", fourModeNames[mi], q(k), l, e, r, wl, we, wr)
					}
				}
				return nil
			})
			if err != nil {
				return err
			}
		}
		st.calls(4 * len(m.Keys))
		return nil
	})
}

// TestC13Exhaustive: the four information levels of one input, every universe string as query.
func TestC13Exhaustive(t *testing.T) {
	pairs := [][2]int{{3, 1}, {3, 2}, {3, 0}, {1, 0}, {2, 0}}
	runSmallEnum(t, "C13", func(st *Stats, v *smallVariant, u []string) error {
		m := newModel(v.c)
		var ts [4]*trie.SlimTrie
		for mi, o := range fourModes {
			tr, err := buildVariant(v, o)
			if err != nil {
				return err
			}
			ts[mi] = tr
		}
		err := guard("Get in four modes", func() error {
			for _, x := range u {
				var f [4]bool
				var val [4]interface{}
				for i := range ts {
					val[i], f[i] = ts[i].Get(x)
				}
				fi := m.find(x)
				if f[3] != (fi >= 0) {
					return viol("complete-inexact", "Complete Get(%s) found=%v, retained=%v", q(x), f[3], fi >= 0)
				}
				if fi >= 0 {
					for i := range ts {
						if !f[i] || !valEq(val[i], m.Want[fi]) {
							return viol("retained-disagree", "mode %s Get(%s) = (%v,%v), want (%v,true)", fourModeNames[i], q(x), val[i], f[i], m.Want[fi])
						}
					}
				}
				for _, p := range pairs {
					a, b := p[0], p[1]
					if f[a] && (!f[b] || !valEq(val[a], val[b])) {
						return viol("not-monotone", "Get(%s) = (%v,%v) in %s but (%v,%v) in %s", q(x), val[a], f[a], fourModeNames[a], val[b], f[b], fourModeNames[b])
					}
				}
			}
			return nil
		})
		if err != nil {
			v.c.Extra = nil
			return err
		}
		st.calls(4 * len(u))
		return nil
	})
}

// TestC10Exhaustive: totality and consistency relations, four modes, every universe string.
func TestC10Exhaustive(t *testing.T) {
	runSmallEnum(t, "C10", func(st *Stats, v *smallVariant, u []string) error {
		m := newModel(v.c)
		for _, o := range fourModes {
			tr, err := buildVariant(v, o)
			if err != nil {
				return err
			}
			cc := *v.c
			cc.Opt = OptSpec{v.dedup, o[1], o[2], o[3]}
			p := pooled{c: &cc, m: m, st: tr}
			for _, x := range u {
				if err := relationsC10(p, x); err != nil {
					v.c.Opt = cc.Opt
					v.c.Extra = []Hex{Hex(x)}
					return err
				}
			}
		}
		st.calls(16 * len(u))
		return nil
	})
}

// TestC18Exhaustive: Stat and String() for every small variant in four modes.
func TestC18Exhaustive(t *testing.T) {
	runSmallEnum(t, "C18", func(st *Stats, v *smallVariant, u []string) error {
		m := newModel(v.c)
		for mi, o := range fourModes {
			tr, err := buildVariant(v, o)
			if err != nil {
				return err
			}
			err = guard("Stat/String", func() error {
				if e := checkStat(tr, len(m.Keys), len(m.AllKeys), "fresh "+fourModeNames[mi]); e != nil {
					return e
				}
				ids, leafVals, perr := parseRendering(tr.String())
				if perr != nil {
					return viol("render", "cannot parse rendering: %v", perr)
				}
				if len(ids) != int(tr.Stat().NodeCnt) {
					return viol("stat", "NodeCnt=%d but String() renders %d nodes", tr.Stat().NodeCnt, len(ids))
				}
				if len(leafVals) != len(m.Keys) {
					return viol("stat", "KeyCnt=%d but String() renders %d leaves", len(m.Keys), len(leafVals))
				}
				for i, lv := range leafVals {
					if want := fmt.Sprintf("%v", m.Want[i]); lv != want {
						return viol("render", "leaf line %d shows %q, want %q", i, lv, want)
					}
				}
				return nil
			})
			if err != nil {
				v.c.Opt = OptSpec{v.dedup, o[1], o[2], o[3]}
				return err
			}
		}
		st.calls(8)
		return nil
	})
}
