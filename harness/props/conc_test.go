package props

import (
	"testing"

	"pgregory.net/rapid"
)

func genReadOps(t *rapid.T, c *Case, qs []string, n int) []ReadOp {
	opsComplete := []string{"get", "getid", "rangeget", "search", "typed", "scanfrom", "scanfromto", "iternew", "iterstep", "iterstep", "stat", "string", "marshal"}
	opsFilter := []string{"get", "getid", "rangeget", "search", "typed", "get", "search", "scanfrom", "stat", "string", "marshal"}
	names := opsFilter
	if c.Opt.complete() {
		names = opsComplete
	}
	big := len(c.Keys) > 400
	var out []ReadOp
	for i := 0; i < n; i++ {
		op := ReadOp{Op: names[pickU(t, "op", len(names))]}
		if big && (op.Op == "string" || op.Op == "marshal") && pickU(t, "skipbig", 4) != 0 {
			op.Op = "get"
		}
		op.Key = pickQuery(t, qs, "key")
		op.Yield = rapid.IntRange(0, 3).Draw(t, "yield") == 0
		switch op.Op {
		case "scanfrom", "scanfromto":
			op.Flag = rapid.IntRange(0, 7).Draw(t, "flags")
			op.Steps = rapid.SampledFrom([]int{0, 1, 3, 10}).Draw(t, "stop")
			if op.Op == "scanfromto" {
				op.End = pickQuery(t, qs, "end")
			}
		case "iternew":
			op.Flag = rapid.IntRange(0, 3).Draw(t, "flags") | rapid.IntRange(0, 1).Draw(t, "slot")<<4
		case "iterstep":
			op.Flag = rapid.IntRange(0, 1).Draw(t, "slot") << 4
			op.Steps = rapid.IntRange(1, 5).Draw(t, "steps")
		}
		out = append(out, op)
	}
	return out
}

func TestC11(t *testing.T) {
	coldStart = true
	runProp(t, "C11", checkC11, func(t *rapid.T) *Case {
		fams := []famWeight{{"K1", 20}, {"K2", 25}, {"K3", 15}, {"K5", 15}, {"K6", 10}, {"K7", 5}, {"Krand", 10}}
		go_ := trieGenOpt{fams: fams}
		if pickU(t, "varwidth?", 3) == 0 {
			// leaves stored as a variable-length array (values of different encoded
			// sizes): another representation behind every value read (C11-g)
			go_.encs, go_.needVals = []string{"String16", "OptU16", "String16"}, true
		}
		c := genTrieCase(t, go_)
		// half of the cases Complete (scans, iterators), half any mode
		if rapid.Bool().Draw(t, "complete") {
			c.Opt = genCompleteOpt(t)
		}
		if pickU(t, "legacy?", 4) == 0 {
			forceLegacy(t, c)
		}
		genExtra(t, c)
		qs := queries(c.keys(), c.Win, c.Extra, false)
		g := rapid.OneOf(rapid.IntRange(2, 8), rapid.IntRange(2, 32)).Draw(t, "goroutines")
		for w := 0; w < g; w++ {
			n := rapid.IntRange(20, 120).Draw(t, "nops")
			c.Workers = append(c.Workers, genReadOps(t, c, qs, n))
		}
		c.Procs = rapid.SampledFrom([]int{1, 2, 16}).Draw(t, "gomaxprocs")
		return c
	})
}

func TestReplayC11(t *testing.T) {
	coldStart = true
	runReplay(t, "C11", func(c *Case, s *Stats) error {
		cc := *c
		if cc.Scrib < 20 {
			cc.Scrib = 20 // repeat the concurrent phase: schedules are sampled, not owned
		}
		return checkC11(&cc, s)
	})
}
