package props

import (
	"bytes"

	"github.com/openacid/slim/encode"
	"github.com/openacid/slim/trie"
)

// Scale tests: sizes at which a 32-bit intermediate (a BIT offset, a byte offset
// times a width) overflows although every documented limit is respected
// (MaxNodeCnt = 2^31-1, leaf bytes < 2 GiB). They bypass the Case machinery (a
// Case holds every payload as hex) and build their input directly; the replay
// file names the recipe.

// counterKeys: n sorted distinct 4-byte keys sharing one backing string.
func counterKeys(n int, stride uint32) []string {
	raw := make([]byte, 4*n)
	for i := 0; i < n; i++ {
		v := uint32(i) * stride
		raw[4*i], raw[4*i+1], raw[4*i+2], raw[4*i+3] = byte(v>>24), byte(v>>16), byte(v>>8), byte(v)
	}
	all := string(raw)
	keys := make([]string, n)
	for i := range keys {
		keys[i] = all[4*i : 4*i+4]
	}
	return keys
}

// bigLeaves: 900 000 keys with 300-byte values: the leaf array holds 270 MB, so
// the bit offset of the last leaves exceeds 2^31 while byte offsets do not.
func bigLeaves(s *Stats) error {
	const n = 900000
	const w = 300
	keys := counterKeys(n, 5)
	buf := make([]byte, n*w)
	vals := make([][]byte, n)
	for i := range vals {
		v := buf[i*w : (i+1)*w : (i+1)*w]
		v[0], v[1], v[2], v[3] = byte(i), byte(i>>8), byte(i>>16), 0xa5
		v[w-3], v[w-2], v[w-1] = byte(i>>16), byte(i>>8), byte(i)
		v[150] = byte(i * 7)
		vals[i] = v
	}
	var st *trie.SlimTrie
	if err := guard("NewSlimTrie (900000 keys, 300-byte values)", func() error {
		var e error
		st, e = trie.NewSlimTrie(encode.Bytes{Size: w}, keys, vals)
		if e != nil {
			return viol("valid-rejected", "NewSlimTrie rejected 900000 sorted keys with 300-byte values: %v", e)
		}
		return nil
	}); err != nil {
		return err
	}
	err := guard("lookups on a trie with 270 MB of leaves", func() error {
		for i, k := range keys {
			v, f := st.Get(k)
			if !f {
				return viol("false-negative", "Get(%s) not found; key #%d of %d, 300-byte values", q(k), i, n)
			}
			if b, ok := v.([]byte); !ok || !bytes.Equal(b, vals[i]) {
				return viol("wrong-value", "Get(%s) returns a wrong value for key #%d of %d (300-byte values; leaf bit offset %d)", q(k), i, n, int64(i)*w*8)
			}
			if i%97 == 0 || i > n-3000 {
				rv, rf := st.RangeGet(k)
				if b, ok := rv.([]byte); !rf || !ok || !bytes.Equal(b, vals[i]) {
					return viol("range-wrong", "RangeGet(%s) wrong for key #%d of %d (300-byte values)", q(k), i, n)
				}
				l, e, r := st.Search(k)
				okL := (i == 0 && l == nil) || (i > 0 && l != nil && bytes.Equal(l.([]byte), vals[i-1]))
				okR := (i == n-1 && r == nil) || (i < n-1 && r != nil && bytes.Equal(r.([]byte), vals[i+1]))
				if e == nil || !bytes.Equal(e.([]byte), vals[i]) || !okL || !okR {
					return viol("search", "Search(%s) wrong for key #%d of %d (300-byte values)", q(k), i, n)
				}
			}
		}
		return nil
	})
	if err != nil {
		return err
	}
	s.calls(n + 3*(n/97+3000))
	s.doneHash(0xb16_1ea7e5, true)
	s.class("scale_leaf_bits_beyond_2^31")
	return nil
}

// hugeI64: 2^25+4096 keys with int64 values: from leaf 2^25 on, (index * 64 bits)
// exceeds 2^31. Get and GetI64 are compared on every key. Needs about 9 GB.
func hugeI64(s *Stats) error {
	n := 1<<25 + 1<<12
	keys := counterKeys(n, 1)
	vals := make([]int64, n)
	for i := range vals {
		vals[i] = int64(uint64(i+1) * 11400714819323198485)
	}
	var st *trie.SlimTrie
	if err := guard("NewSlimTrie (2^25+4096 keys, int64 values)", func() error {
		var e error
		st, e = trie.NewSlimTrie(encode.I64{}, keys, vals)
		if e != nil {
			return viol("valid-rejected", "NewSlimTrie rejected 2^25+4096 sorted keys: %v", e)
		}
		return nil
	}); err != nil {
		return err
	}
	err := guard("Get / GetI64 on a trie with 2^25+4096 leaves", func() error {
		for i, k := range keys {
			if i > 4096 && i < n-3*4096 && i%61 != 0 {
				continue // every key of the first 4096 and of the last 12288, a sample between
			}
			v, f := st.Get(k)
			if !f || v.(int64) != vals[i] {
				return viol("wrong-value", "Get(%s) = (%v,%v), want (%d,true); key #%d of %d", q(k), v, f, vals[i], i, n)
			}
			tv, tf := st.GetI64(k)
			if !tf || tv != vals[i] {
				return viol("typed-differs", "GetI64(%s) = (%d,%v) but Get = (%d,true); key #%d of %d", q(k), tv, tf, vals[i], i, n)
			}
		}
		// absent keys: both say not found
		for _, k := range []string{"", "\xff\xff\xff\xff\xff", keys[n-1] + "x", "\x02\x00\x10"} {
			_, f := st.Get(k)
			_, tf := st.GetI64(k)
			if f != tf {
				return viol("typed-differs", "Get(%s) found=%v but GetI64 found=%v", q(k), f, tf)
			}
		}
		return nil
	})
	if err != nil {
		return err
	}
	s.calls(2 * (4096 + 3*4096 + n/61))
	s.doneHash(0x6e_1641, true)
	s.class("scale_2^25_int64_leaves")
	return nil
}
