package props

import (
	"bytes"
	"fmt"
	"strings"

	"github.com/openacid/slim/trie"
)

// ---------------------------------------------------------------------------
// C07: incompatible versions and interrupted writes are rejected.

func isIncompatibleErr(err error) bool {
	for i := 0; err != nil && i < 50; i++ {
		if err == trie.ErrIncompatible {
			return true
		}
		switch e := err.(type) {
		case interface{ Cause() error }:
			err = e.Cause()
		case interface{ Unwrap() error }:
			err = e.Unwrap()
		default:
			return false
		}
	}
	return false
}

var compatibleHeaders3 = []string{"1.0.0", "0.5.8", "0.5.9"}

// otherData is a small stream that the instance holds before the faulty load.
func otherData(c *Case) ([]byte, []string) {
	keys := []string{"", "\x00", "a", "ab", "abc", "b", "\xff"}
	oc := &Case{Keys: hexes(keys), Enc: c.Enc, HasVals: true, Opt: OptSpec{1, 0, 0, 2}}
	for i := range keys {
		oc.Vals = append(oc.Vals, Hex(leBytes(uint64(i+1), 8)))
	}
	st, err := oc.build()
	if err != nil {
		panic(err)
	}
	b, err := st.Marshal()
	if err != nil {
		panic(err)
	}
	return b, keys
}

// fieldBoundaries returns the byte offsets where a header, a body or a
// top-level protobuf field of a stream starts or ends.
func fieldBoundaries(b []byte) []int {
	var out []int
	off := 0
	for off+32 <= len(b) {
		out = append(out, off, off+16, off+24, off+32)
		size := int(uint64(b[off+24]) | uint64(b[off+25])<<8 | uint64(b[off+26])<<16 | uint64(b[off+27])<<24)
		body := off + 32
		if size < 0 || body+size > len(b) {
			break
		}
		p := body
		for _, f := range splitFields(b[body : body+size]) {
			p += len(f.raw)
			out = append(out, p)
		}
		off = body + size
	}
	return out
}

func checkC07(c *Case, s *Stats) error {
	if c.Kind == "version" {
		return checkC07Version(c, s)
	}
	stream, err := streamOf(c)
	if err != nil {
		return err
	}
	other, okeys := otherData(c)
	qs := append(append([]string{}, okeys...), c.keys()...)
	if len(qs) > 40 {
		qs = qs[:40]
	}
	// cut points: all for small streams, structured + drawn for large ones
	var cuts []int
	if len(stream) <= 4096 {
		for i := 0; i < len(stream); i++ {
			cuts = append(cuts, i)
		}
	} else {
		seen := map[int]bool{}
		add := func(i int) {
			if i >= 0 && i < len(stream) && !seen[i] {
				seen[i] = true
				cuts = append(cuts, i)
			}
		}
		for _, bnd := range fieldBoundaries(stream) {
			for d := -64; d <= 64; d++ {
				add(bnd + d)
			}
		}
		for _, x := range c.Cuts {
			add(x % len(stream))
		}
	}
	inst := emptyTrie(c)
	for _, cut := range cuts {
		cut := cut
		what := fmt.Sprintf("Unmarshal of the first %d of %d bytes of a %s stream", cut, len(stream), layoutName(c))
		err := guard(what, func() error {
			if e := inst.Unmarshal(other); e != nil {
				return viol("valid-rejected", "preloading a valid current-format stream failed: %v", e)
			}
			e := inst.Unmarshal(append([]byte{}, stream[:cut]...))
			if e == nil {
				return viol("truncated-accepted", "%s succeeded", what)
			}
			if cut%5 == 0 {
				// the same interrupted stream offered again
				if e2 := inst.Unmarshal(append([]byte{}, stream[:cut]...)); e2 == nil {
					return viol("truncated-accepted", "%s was rejected the first time and accepted when offered again", what)
				}
			}
			return nil
		})
		if err != nil {
			return err
		}
		if e := checkAnswersEmpty(inst, qs, "after rejected "+what); e != nil {
			return e
		}
	}
	// positive control: the complete stream loads
	err = guard("Unmarshal of the complete stream", func() error {
		if e := inst.Unmarshal(stream); e != nil {
			return viol("valid-rejected", "complete %s stream rejected: %v", layoutName(c), e)
		}
		return nil
	})
	if err != nil {
		return err
	}
	s.class("cut_layout=" + layoutName(c) + "/" + c.Opt.mode())
	s.classN("cuts", int64(len(cuts)))
	if len(stream) <= 4096 {
		s.class("cuts_exhaustive_for_stream")
	}
	s.calls(len(cuts) * (2 + 4*len(qs)))
	s.done(c, len(cuts) > 33, layoutName(c))
	return nil
}

func layoutName(c *Case) string {
	if c.Load == "" || c.Load == "reload" || c.Load == "proto" || c.Load == "over" {
		return "current"
	}
	return c.Load
}

// checkC07Version: c.Ver is the version string written into the header(s).
// c.Probe[0] says what is expected: 0 = must be rejected as incompatible, 1 = must load.
func checkC07Version(c *Case, s *Stats) error {
	stream, err := streamOf(c)
	if err != nil {
		return err
	}
	ver := []byte(c.Ver)
	if len(ver) > 16 {
		return fmt.Errorf("version longer than the header field")
	}
	// write the version into every section header
	mod := append([]byte{}, stream...)
	off := 0
	for off+32 <= len(mod) {
		for i := 0; i < 16; i++ {
			mod[off+i] = 0
		}
		copy(mod[off:], ver)
		size := int(uint64(mod[off+24]) | uint64(mod[off+25])<<8 | uint64(mod[off+26])<<16 | uint64(mod[off+27])<<24)
		off += 32 + size
	}
	mustLoad := len(c.Probe) > 0 && c.Probe[0] == 1
	if !mustLoad && c.Scrib != 0 && len(mod) >= 32 {
		// the version decides before anything else of the stream is interpreted:
		// a newer release may have changed the rest of the header, foreign data has
		// arbitrary bytes there
		r := sm64{uint64(c.Scrib)}
		switch c.Scrib % 4 {
		case 1: // a different header size
			hs := []uint64{0, 16, 31, 33, 48, 64, 1 << 40}[r.intn(7)]
			for i := 0; i < 8; i++ {
				mod[16+i] = byte(hs >> (8 * uint(i)))
			}
		case 2: // random header size and body size
			for i := 16; i < 32; i++ {
				mod[i] = byte(r.next())
			}
		case 3: // only the 32 header bytes, body gone
			mod = mod[:32]
		}
		s.class("version_with_garbled_header_fields")
	}
	other, okeys := otherData(c)
	inst := emptyTrie(c)
	what := fmt.Sprintf("Unmarshal of a %s stream with header version %q", layoutName(c), string(ver))
	var loadErr error
	err = guard(what, func() error {
		if e := inst.Unmarshal(other); e != nil {
			return viol("valid-rejected", "preloading a valid current-format stream failed: %v", e)
		}
		loadErr = inst.Unmarshal(mod)
		return nil
	})
	if err != nil {
		return err
	}
	if mustLoad {
		if loadErr != nil {
			return viol("compatible-rejected", "%s failed: %v", what, loadErr)
		}
		m := newModel(c)
		err := guard("lookup after a compatible load", func() error {
			for i, k := range m.Keys {
				if v, f := inst.Get(k); !f || !valEq(v, m.Want[i]) {
					return viol("compatible-wrong", "%s: Get(%s) = (%v,%v), want (%v,true)", what, q(k), v, f, m.Want[i])
				}
			}
			return nil
		})
		if err != nil {
			return err
		}
		s.class("version_positive_control")
	} else {
		if loadErr == nil {
			return viol("incompatible-accepted", "%s succeeded", what)
		}
		if !isIncompatibleErr(loadErr) {
			return viol("wrong-error", "%s failed with %v, which is not ErrIncompatible", what, loadErr)
		}
		// a retrying loader offers the same stream again: it must be rejected again
		var again error
		err = guard("second "+what, func() error {
			again = inst.Unmarshal(append([]byte{}, mod...))
			return nil
		})
		if err != nil {
			return err
		}
		if again == nil {
			return viol("incompatible-accepted", "%s was rejected the first time and ACCEPTED when offered again", what)
		}
		if !isIncompatibleErr(again) {
			return viol("wrong-error", "%s, offered a second time, failed with %v, which is not ErrIncompatible", what, again)
		}
		qs := append(append([]string{}, okeys...), c.keys()...)
		if len(qs) > 60 {
			qs = qs[:60]
		}
		if e := checkAnswersEmpty(inst, qs, "after rejected "+what); e != nil {
			return e
		}
		s.class("version_class=" + c.Gen)
	}
	s.calls(2)
	s.done(c, true, c.Gen)
	return nil
}

// ---------------------------------------------------------------------------
// C08: construction is all-or-nothing.

func strictlyAscending(keys []string) bool {
	for i := 1; i < len(keys); i++ {
		if bytes.Compare([]byte(keys[i-1]), []byte(keys[i])) >= 0 {
			return false
		}
	}
	return true
}

func isOutOfOrderErr(err error) bool {
	for i := 0; err != nil && i < 50; i++ {
		if err == trie.ErrKeyOutOfOrder {
			return true
		}
		switch e := err.(type) {
		case interface{ Cause() error }:
			err = e.Cause()
		case interface{ Unwrap() error }:
			err = e.Unwrap()
		default:
			return false
		}
	}
	return false
}

func checkC08(c *Case, s *Stats) error {
	if c.Gen == "concurrent-round" {
		// a replay: the outcome depends on the schedule, so the round is repeated
		for rep := 0; rep < 40; rep++ {
			if err := concurrentRound(c.Block, s); err != nil {
				return err
			}
		}
		return nil
	}
	keys := c.keys()
	asc := strictlyAscending(keys)
	maxLen := 0
	for _, k := range keys {
		if len(k) > maxLen {
			maxLen = len(k)
		}
	}
	var st *trie.SlimTrie
	var berr error
	err := guardHang("C08", c, s, "NewSlimTrie", func() error {
		st, berr = c.build()
		return nil
	})
	if err != nil {
		return err
	}
	s.class("mode=" + c.Opt.mode())
	for i, part := range strings.Split(c.Gen, "/") {
		if i == 0 {
			s.class("gen=" + part)
		} else {
			s.class("inject=" + part)
		}
	}
	if berr != nil {
		if st != nil {
			return viol("err-and-trie", "NewSlimTrie returned an error (%v) and a non-nil trie", berr)
		}
		if !asc {
			if !isOutOfOrderErr(berr) {
				return viol("wrong-error", "non-ascending keys rejected with %v, which is not ErrKeyOutOfOrder", berr)
			}
			s.class("rejected_out_of_order")
		} else {
			if maxLen <= maxKeyLen {
				return viol("valid-rejected", "strictly ascending keys within the documented limits (max len %d) rejected: %v", maxLen, berr)
			}
			s.class("rejected_beyond_documented_limit")
		}
		s.done(c, c.Scrib != 0, strings.SplitN(c.Gen, "/", 2)[0])
		return nil
	}
	if st == nil {
		return viol("nil-nil", "NewSlimTrie returned nil trie and nil error")
	}
	if !asc {
		bad := 0
		for i := 1; i < len(keys); i++ {
			if keys[i-1] >= keys[i] {
				bad = i
				break
			}
		}
		return viol("invalid-accepted", "keys not strictly ascending at index %d (%s >= %s) but NewSlimTrie accepted them", bad, q(keys[bad-1]), q(keys[bad]))
	}
	// accepted: the trie must satisfy the lookup guarantees for its own keys
	m := newModel(c)
	err = guard("lookup of own keys", func() error {
		for i, k := range m.Keys {
			v, f := st.Get(k)
			if !f || !valEq(v, m.Want[i]) {
				return viol("mis-indexed", "accepted input, but Get(%s) = (%v,%v), want (%v,true); %d keys, max len %d, mode %s", q(k), v, f, m.Want[i], len(keys), maxLen, c.Opt.mode())
			}
		}
		for i, k := range m.AllKeys {
			v, f := st.RangeGet(k)
			if !f || !valEq(v, m.Want[m.Cover[i]]) {
				return viol("mis-indexed", "accepted input, but RangeGet(%s) = (%v,%v), want (%v,true)", q(k), v, f, m.Want[m.Cover[i]])
			}
		}
		return nil
	})
	if err != nil {
		return err
	}
	s.calls(2 * len(keys))
	if maxLen > maxKeyLen {
		s.class("accepted_beyond_documented_limit")
	} else {
		s.class("accepted_valid")
	}
	s.done(c, c.Scrib != 0, strings.SplitN(c.Gen, "/", 2)[0])
	return nil
}

// ladderPlacements is the number of shapes ladderKeys knows.
const ladderPlacements = 9

// ladderKeys builds a key set whose single-branch run has exactly L nibbles.
// The placement decides what precedes the run and which kind of node follows it.
func ladderKeys(L int, place int, fill byte) []string {
	// run of L nibbles: L/2 bytes of fill, plus a half byte when L is odd
	run := strings.Repeat(string([]byte{fill}), L/2)
	var a, b string
	if L%2 == 0 {
		a, b = run+"\x10", run+"\x20" // branch on the high nibble of the next byte
	} else {
		a, b = run+string([]byte{fill&0xf0 | 0x01}), run+string([]byte{fill&0xf0 | 0x02}) // branch on the low nibble
	}
	// fan returns n keys that continue the run with n distinct branches
	fan := func(prefix string, n int) []string {
		var keys []string
		for i := 0; i < n; i++ {
			if L%2 == 0 {
				keys = append(keys, prefix+run+string([]byte{byte(0x11 * (i % 15)), byte(i)})+"t")
			} else {
				// the run ends on a half byte: distinct low nibbles, then distinct next bytes
				keys = append(keys, prefix+run+string([]byte{fill&0xf0 | byte(i%16), byte(i)})+"t")
			}
		}
		return keys
	}
	fanBytes := func(prefix string, n int) []string {
		var keys []string
		for i := 0; i < n; i++ {
			if L%2 == 0 {
				keys = append(keys, prefix+run+string([]byte{byte(7 + 13*i)})+"t")
			} else {
				keys = append(keys, prefix+run+string([]byte{fill&0xf0 | byte(i%16)})+string([]byte{byte(7 + 13*i)}))
			}
		}
		return keys
	}
	switch place {
	case 0: // at the root, followed by a two-way 17-bit node
		return []string{a, b}
	case 1: // below a 257-bit node: 12 distinct first bytes
		var keys []string
		for i := 0; i < 11; i++ {
			keys = append(keys, string([]byte{byte(0x10 + i)}))
		}
		keys = append(keys, "\xf0"+a, "\xf0"+b)
		return uniqSorted(keys)
	case 2: // below a 17-bit node
		return uniqSorted([]string{"\x01", "\x21" + a, "\x21" + b})
	case 3: // as a leaf tail: the run follows the branch
		return uniqSorted([]string{"\x01", "\x02" + run})
	case 4: // at the root, followed by a 257-bit node (12 distinct next bytes)
		return uniqSorted(fanBytes("", 12))
	case 5: // below a 257-bit node, followed by another 257-bit node
		var keys []string
		for i := 0; i < 11; i++ {
			keys = append(keys, string([]byte{byte(0x10 + i)}))
		}
		keys = append(keys, fanBytes("\xf0", 14)...)
		return uniqSorted(keys)
	case 6: // at the root, followed by a 17-bit node with many labels
		return uniqSorted(fan("", 15))
	case 7: // followed by a node that has the end-of-key label: the run itself is a key
		if L%2 == 1 {
			return []string{a, b}
		}
		return uniqSorted([]string{run, a, b})
	default: // three levels: 17-bit node, run, 257-bit node, run, leaves
		keys := fanBytes("\x05", 11)
		keys = append(keys, "\x06", "\x05"+run+"\x07"+run+"a", "\x05"+run+"\x07"+run+"b")
		return uniqSorted(keys)
	}
}
