package props

import (
	"bytes"
	"crypto/sha1"
	"fmt"
	"os"
	"path/filepath"
	"reflect"
	"strings"

	"github.com/golang/protobuf/proto"
	"github.com/openacid/slim/trie"
	"github.com/openacid/testkeys"
)

// ---------------------------------------------------------------------------
// Observation: everything a trie answers on a query set, as comparable strings.

type obsOpt struct {
	typed   string // "I8".."I64" when the typed getters are within their domain, else ""
	scans   bool   // the trie supports scanning (stores complete keys)
	stat    bool
	str     bool
	marshal bool
}

func capture(f func() string) (s string) {
	defer func() {
		if r := recover(); r != nil {
			s = fmt.Sprintf("panic: %v", r)
		}
	}()
	return f()
}

func observe(st *trie.SlimTrie, qs []string, o obsOpt) []string {
	out := make([]string, 0, 4*len(qs)+8)
	for _, x := range qs {
		x := x
		out = append(out, capture(func() string {
			v, f := st.Get(x)
			return fmt.Sprintf("Get(%s)=%v,%v", q(x), v, f)
		}))
		out = append(out, capture(func() string {
			return fmt.Sprintf("GetID(%s)>=0:%v", q(x), st.GetID(x) >= 0)
		}))
		out = append(out, capture(func() string {
			v, f := st.RangeGet(x)
			return fmt.Sprintf("RangeGet(%s)=%v,%v", q(x), v, f)
		}))
		out = append(out, capture(func() string {
			l, e, r := st.Search(x)
			return fmt.Sprintf("Search(%s)=%v,%v,%v", q(x), l, e, r)
		}))
		if o.typed != "" {
			out = append(out, capture(func() string {
				switch o.typed {
				case "I8":
					v, f := st.GetI8(x)
					return fmt.Sprintf("GetI8(%s)=%v,%v", q(x), v, f)
				case "I16":
					v, f := st.GetI16(x)
					return fmt.Sprintf("GetI16(%s)=%v,%v", q(x), v, f)
				case "I32":
					v, f := st.GetI32(x)
					return fmt.Sprintf("GetI32(%s)=%v,%v", q(x), v, f)
				default:
					v, f := st.GetI64(x)
					return fmt.Sprintf("GetI64(%s)=%v,%v", q(x), v, f)
				}
			}))
		}
	}
	if o.scans {
		out = append(out, capture(func() string {
			h := sha1.New()
			n := 0
			st.ScanFrom("", true, true, func(k, v []byte) bool {
				fmt.Fprintf(h, "%x=%x;", k, v)
				n++
				return true
			})
			return fmt.Sprintf("ScanFrom('')=%d entries sha1 %x", n, h.Sum(nil)[:8])
		}))
		for i, x := range qs {
			if i%7 != 0 {
				continue
			}
			x := x
			out = append(out, capture(func() string {
				var sb strings.Builder
				next := st.NewIter(x, i%2 == 0, i%3 == 0)
				for j := 0; j < 3; j++ {
					k, v := next()
					if k == nil {
						sb.WriteString("<end>")
						break
					}
					fmt.Fprintf(&sb, "%x=%x;", k, v)
				}
				return fmt.Sprintf("NewIter(%s)=%s", q(x), sb.String())
			}))
		}
	}
	if o.stat {
		out = append(out, capture(func() string { return fmt.Sprintf("Stat=%+v", *st.Stat()) }))
	}
	if o.str {
		out = append(out, capture(func() string {
			s := st.String()
			return fmt.Sprintf("String=%d bytes sha1 %x", len(s), sha1.Sum([]byte(s)))
		}))
	}
	if o.marshal {
		out = append(out, capture(func() string {
			b, err := st.Marshal()
			return fmt.Sprintf("Marshal=%d bytes sha1 %x err=%v", len(b), sha1.Sum(b), err)
		}))
		// the advertised protobuf size, and proto.Marshal, are part of the serialisation API
		out = append(out, capture(func() string {
			b, _ := st.Marshal()
			if sz := proto.Size(st); sz != len(b) {
				return fmt.Sprintf("proto.Size=%d BUT Marshal produces %d bytes", sz, len(b))
			}
			pb, err := proto.Marshal(st)
			if err != nil || !bytes.Equal(pb, b) {
				return fmt.Sprintf("proto.Marshal differs from Marshal (err=%v)", err)
			}
			return "proto.Size and proto.Marshal agree with Marshal"
		}))
	}
	return out
}

func diffObs(a, b []string) string {
	if len(a) != len(b) {
		return fmt.Sprintf("%d vs %d observations", len(a), len(b))
	}
	for i := range a {
		if a[i] != b[i] {
			return fmt.Sprintf("%s  VS  %s", a[i], b[i])
		}
	}
	return ""
}

// isEmptyObs checks that a trie answers lookups and scans as an empty trie.
func checkAnswersEmpty(st *trie.SlimTrie, qs []string, what string) error {
	return guard(what, func() error {
		for _, x := range qs {
			if v, f := st.Get(x); f || v != nil {
				return viol("residue", "%s: Get(%s) = (%v,%v), want not found", what, q(x), v, f)
			}
			if id := st.GetID(x); id >= 0 {
				return viol("residue", "%s: GetID(%s) = %d", what, q(x), id)
			}
			if v, f := st.RangeGet(x); f || v != nil {
				return viol("residue", "%s: RangeGet(%s) = (%v,%v), want not found", what, q(x), v, f)
			}
			if l, e, r := st.Search(x); l != nil || e != nil || r != nil {
				return viol("residue", "%s: Search(%s) = (%v,%v,%v), want all nil", what, q(x), l, e, r)
			}
		}
		n := 0
		st.ScanFrom("", true, true, func(k, v []byte) bool { n++; return true })
		if n != 0 {
			return viol("residue", "%s: ScanFrom yields %d entries, want none", what, n)
		}
		if k, v := st.NewIter("", true, false)(); k != nil || v != nil {
			return viol("residue", "%s: NewIter yields %x, want exhaustion", what, k)
		}
		return nil
	})
}

// streamOf produces the byte stream of a case: current format or a legacy layout.
func streamOf(c *Case) ([]byte, error) {
	if c.Load != "" && c.Load != "reload" && c.Load != "proto" && c.Load != "fresh" && c.Load != "over" {
		return safeLegacyStream(c, c.Load)
	}
	var b []byte
	err := guard("NewSlimTrie/Marshal", func() error {
		st, e := c.build()
		if e != nil {
			return viol("build", "NewSlimTrie rejected valid input: %v", e)
		}
		b, e = st.Marshal()
		if e != nil {
			return viol("marshal", "Marshal failed: %v", e)
		}
		return nil
	})
	return b, err
}

func isLegacyLoad(c *Case) bool {
	return c.Load != "" && c.Load != "reload" && c.Load != "proto" && c.Load != "fresh" && c.Load != "over"
}

// scansOK: the stream's trie stores complete keys, so scans are legal.
func scansOK(c *Case) bool { return c.Opt.complete() || len(c.Keys) == 0 }

// ---------------------------------------------------------------------------
// C05: round trip, byte stability, no residue.

func checkC05(c *Case, s *Stats) error {
	if len(c.Pool) > 0 {
		return checkC05History(c, s)
	}
	m := newModel(c)
	var t1, t2 *trie.SlimTrie
	var b []byte
	if len(c.Keys)%4 == 2 && c.Enc != "Dummy" {
		// loads of the same bytes on separate instances at the same time (a process
		// that opens several index files at start-up); a crash of the Go runtime
		// (concurrent map access) is attributed to this case through the side file
		noteCurrentCase(c)
		pre, e := c.build()
		if e != nil {
			return viol("build", "NewSlimTrie rejected valid input: %v", e)
		}
		if err := concurrentLoads(c, pre, m, s); err != nil {
			return err
		}
	}
	err := guard("build/marshal/unmarshal", func() error {
		var e error
		t1, e = c.build()
		if e != nil {
			return viol("build", "NewSlimTrie rejected valid input: %v", e)
		}
		b, e = t1.Marshal()
		if e != nil {
			return viol("marshal", "Marshal failed: %v", e)
		}
		if sz := proto.Size(t1); sz != len(b) {
			return viol("size", "proto.Size = %d but Marshal produced %d bytes", sz, len(b))
		}
		if len(c.Keys)%4 == 1 {
			// a rejected build in between must not influence the next one
			if _, e := lateRejectedBuild(); e != nil {
				return e
			}
		}
		again, e := c.build()
		if e != nil {
			return viol("build", "second build failed: %v", e)
		}
		b2, _ := again.Marshal()
		if !bytes.Equal(b, b2) {
			return viol("nondeterministic", "building twice from equal input gives different bytes (%d vs %d bytes)", len(b), len(b2))
		}
		pb, e := proto.Marshal(t1)
		if e != nil || !bytes.Equal(pb, b) {
			return viol("marshal", "proto.Marshal differs from Marshal (err=%v)", e)
		}
		t2 = emptyTrie(c)
		if c.Load == "over" {
			t2 = usedInstance(c)
		}
		if c.Load == "proto" {
			e = proto.Unmarshal(b, t2)
		} else {
			e = t2.Unmarshal(b)
		}
		if e != nil {
			return viol("unmarshal", "Unmarshal of own bytes failed: %v", e)
		}
		b3, e := t2.Marshal()
		if e != nil || !bytes.Equal(b3, b) {
			return viol("unstable", "re-marshalling the loaded trie gives different bytes (err=%v, %d vs %d bytes)", e, len(b3), len(b))
		}
		if sz := proto.Size(t2); sz != len(b) {
			return viol("size", "proto.Size of loaded trie = %d but stream has %d bytes", sz, len(b))
		}
		return nil
	})
	if err != nil {
		return err
	}
	sh, ok := shapeOf(t1)
	classify(s, c, m, sh, ok)
	qs := queries(m.AllKeys, c.Win, c.Extra, false)
	small := !ok || sh.Inners < 1500
	o := obsOpt{typed: typedEnc(c), scans: scansOK(c), stat: true, str: small, marshal: false}
	a, bb := observe(t1, qs, o), observe(t2, qs, o)
	if d := diffObs(a, bb); d != "" {
		return viol("roundtrip-differs", "fresh vs loaded: %s", d)
	}
	for _, x := range a {
		if strings.HasPrefix(x, "panic:") {
			return viol("panic", "observation panicked: %s", x)
		}
	}
	if !reflect.DeepEqual(t1.Stat(), t2.Stat()) {
		return viol("roundtrip-differs", "Stat differs after round trip")
	}
	s.calls(2 * len(a))
	s.done(c, ok && sh.Inners >= 1, c.Opt.mode())
	return nil
}

// checkC05History: a sequence of Unmarshal/Reset calls on ONE instance; after
// every step the instance must be observationally equal to a fresh twin that
// received only the last successfully applied stream.
func checkC05History(c *Case, s *Stats) error {
	streams := make([][]byte, len(c.Pool))
	var qs []string
	seen := map[string]struct{}{}
	for i, pc := range c.Pool {
		pc.Enc = c.Enc
		b, err := streamOf(pc)
		if err != nil {
			return err
		}
		streams[i] = b
		for _, x := range queries(pc.keys(), pc.Win, nil, false) {
			if _, ok := seen[x]; !ok && len(qs) < 4000 {
				seen[x] = struct{}{}
				qs = append(qs, x)
			}
		}
	}
	for _, e := range c.Extra {
		qs = append(qs, string(e))
	}
	type keptOut struct {
		step int
		out  []byte // the slice exactly as Marshal returned it
		snap []byte // a private copy taken at that moment
	}
	var kept []keptOut
	var shared []byte // one buffer re-used for every load when c.Scrib&2 != 0
	if c.Scrib&2 == 2 {
		s.class("hist_loads_through_one_reused_buffer")
	}
	inst := emptyTrie(c)
	if c.Scrib&1 == 1 && !isLegacyLoad(c.Pool[0]) {
		// the instance starts its life as a BUILT trie (not a loaded one)
		err := guard("NewSlimTrie", func() error {
			var e error
			inst, e = c.Pool[0].buildEnc(c.Pool[0].encoder())
			if e != nil {
				return viol("build", "NewSlimTrie rejected valid input: %v", e)
			}
			return nil
		})
		if err != nil {
			return err
		}
		s.class("hist_starts_from_built_trie")
	}
	cur := -1 // index of the stream the instance must be equal to; -1 = empty
	curFailed := false
	shrunk := false
	maxLen := 0
	for step, op := range c.Hist {
		if op.Stream < 0 || op.Stream >= len(streams) {
			return fmt.Errorf("bad stream index in history")
		}
		b := streams[op.Stream]
		var opErr error
		what := fmt.Sprintf("step %d %s(stream %d)", step, op.Op, op.Stream)
		err := guard(what, func() error {
			switch op.Op {
			case "unmarshal":
				if c.Scrib&2 == 2 {
					// the caller reads every stream into the same buffer
					if cap(shared) < len(b) {
						shared = make([]byte, 0, 2*len(b)+64)
					}
					shared = append(shared[:0], b...)
					opErr = inst.Unmarshal(shared)
				} else {
					opErr = inst.Unmarshal(append([]byte{}, b...))
				}
			case "proto":
				opErr = proto.Unmarshal(append([]byte{}, b...), inst)
			case "reset":
				inst.Reset()
			case "trunc":
				cut := op.Cut % len(b)
				opErr = inst.Unmarshal(append([]byte{}, b[:cut]...))
				if opErr == nil {
					return viol("truncated-accepted", "%s: Unmarshal of a %d-byte prefix of a %d-byte stream succeeded", what, cut, len(b))
				}
			case "badver":
				bad := append([]byte{}, b...)
				copy(bad[:16], "9.9.9\x00\x00\x00\x00\x00\x00\x00\x00\x00\x00\x00")
				opErr = inst.Unmarshal(bad)
				if opErr == nil {
					return viol("incompatible-accepted", "%s: Unmarshal of version 9.9.9 succeeded", what)
				}
			default:
				return fmt.Errorf("unknown history op %q", op.Op)
			}
			return nil
		})
		if err != nil {
			return err
		}
		switch op.Op {
		case "unmarshal", "proto":
			if opErr != nil {
				return viol("unmarshal", "%s: valid stream rejected: %v", what, opErr)
			}
			if len(b) < maxLen {
				shrunk = true
			}
			if len(b) > maxLen {
				maxLen = len(b)
			}
			cur, curFailed = op.Stream, false
		case "reset":
			cur, curFailed = -1, false
		case "trunc", "badver":
			cur, curFailed = -1, true
			if maxLen > 0 {
				shrunk = true
			}
		}
		// invariant
		if cur < 0 {
			if e := checkAnswersEmpty(inst, qs, what); e != nil {
				return e
			}
			if !curFailed {
				// after Reset the instance is an empty trie on every API
				err := guard(what+": empty-trie APIs", func() error {
					stt := inst.Stat()
					if stt.KeyCnt != 0 || stt.NodeCnt != 0 {
						return viol("residue", "%s: Stat after Reset reports %d keys %d nodes", what, stt.KeyCnt, stt.NodeCnt)
					}
					if str := inst.String(); str != "" {
						return viol("residue", "%s: String after Reset is %q", what, str)
					}
					eb, _ := emptyTrie(c).Marshal()
					ib, e := inst.Marshal()
					if e != nil || !bytes.Equal(eb, ib) {
						return viol("residue", "%s: Marshal after Reset differs from an empty trie's bytes", what)
					}
					return nil
				})
				if err != nil {
					return err
				}
			}
		} else {
			twin := emptyTrie(c)
			if e := twin.Unmarshal(append([]byte{}, b...)); e != nil {
				return viol("unmarshal", "twin load failed: %v", e)
			}
			pc := c.Pool[cur]
			pcc := *pc
			pcc.Enc = c.Enc
			o := obsOpt{typed: typedEnc(&pcc), scans: scansOK(pc), stat: true, str: len(pc.Keys) < 1500, marshal: true}
			if d := diffObs(observe(twin, qs, o), observe(inst, qs, o)); d != "" {
				return viol("residue", "%s: instance differs from a fresh twin loaded with the same stream: %s", what, d)
			}
		}
		s.calls(4 * len(qs))
		// bytes handed out by Marshal at earlier steps belong to the caller: they
		// must still read as they did when they were returned
		for ki, k := range kept {
			if !bytes.Equal(k.out, k.snap) {
				return viol("output-aliased", "%s: the bytes returned by Marshal after step %d were changed by a later operation on the instance", what, k.step)
			}
			_ = ki
		}
		if cur >= 0 {
			err := guard(what+": Marshal", func() error {
				out, e := inst.Marshal()
				if e != nil {
					return viol("marshal", "%s: Marshal failed: %v", what, e)
				}
				kept = append(kept, keptOut{step: step, out: out, snap: append([]byte{}, out...)})
				return nil
			})
			if err != nil {
				return err
			}
		}
	}
	for _, op := range c.Hist {
		s.class("hist_op=" + op.Op)
	}
	for _, pc := range c.Pool {
		ld := pc.Load
		if ld == "" {
			ld = "current"
		}
		s.class("hist_stream=" + ld + "/" + pc.Opt.mode())
	}
	s.class(fmt.Sprintf("hist_len=%d", len(c.Hist)))
	if shrunk {
		s.class("hist_smaller_after_larger")
	}
	s.done(c, shrunk, "history")
	return nil
}

// ---------------------------------------------------------------------------
// C06: every older compatible layout loads and answers correctly.

func checkC06(c *Case, s *Stats) error {
	if !isLegacy3(c.Load) && c.Load != "0.5.10" && c.Load != "0.5.11" {
		return fmt.Errorf("C06 case must name a legacy layout, got %q", c.Load)
	}
	m := newModel(c)
	b, err := streamOf(c)
	if err != nil {
		return err
	}
	var st *trie.SlimTrie
	err = guard("Unmarshal of a legacy stream", func() error {
		st = loadTarget(c)
		if e := st.Unmarshal(b); e != nil {
			return viol("legacy-rejected", "Unmarshal of a valid %s stream (%d bytes, header %q) failed: %v", c.Load, len(b), strings.TrimRight(string(b[:16]), "\x00"), e)
		}
		return nil
	})
	if err != nil {
		return err
	}
	sh, ok := shapeOf(st)
	classify(s, c, m, sh, ok)
	valued := c.HasVals
	err = guard("lookup on a legacy-loaded trie", func() error {
		for i, k := range m.Keys {
			v, f := st.Get(k)
			if !f || !valEq(v, m.Want[i]) {
				return viol("legacy-get", "%s: Get(%s) = (%v,%v), want (%v,true)", c.Load, q(k), v, f, m.Want[i])
			}
			if valued {
				l, e, r := st.Search(k)
				wl, we, wr := m.want(i-1), m.want(i), nilIfEnd(m, i+1)
				if !valEq(l, wl) || !valEq(e, we) || !valEq(r, wr) {
					return viol("legacy-search", "%s: Search(%s) = (%v,%v,%v), want (%v,%v,%v)", c.Load, q(k), l, e, r, wl, we, wr)
				}
			}
		}
		for i, k := range m.AllKeys {
			v, f := st.RangeGet(k)
			if !f || !valEq(v, m.Want[m.Cover[i]]) {
				return viol("legacy-rangeget", "%s: RangeGet(%s) = (%v,%v), want (%v,true)", c.Load, q(k), v, f, m.Want[m.Cover[i]])
			}
		}
		if kc := st.Stat().KeyCnt; int(kc) != len(m.Keys) {
			return viol("legacy-stat", "%s: KeyCnt = %d, want %d", c.Load, kc, len(m.Keys))
		}
		return nil
	})
	if err != nil {
		return err
	}
	s.calls(3 * len(m.Keys))
	converted := false
	if isLegacy3(c.Load) {
		converted = hasPrefixKey(m.AllKeys) || (ok && sh.Prefixes > 0)
		hdr := strings.TrimRight(string(b[:16]), "\x00")
		s.class("legacy_header=" + hdr)
	} else {
		converted = ok && (sh.Prefixes > 0 || c.HasVals)
	}
	// shape classes named by the property text
	if hasPrefixKey(m.AllKeys) {
		s.class("legacy:key_ends_at_inner_node")
	}
	if len(m.AllKeys) == 0 {
		s.class("legacy:empty_set")
	}
	if len(m.AllKeys) == 1 {
		s.class("legacy:single_key")
	}
	if ok && sh.Inners+len(m.Keys) > 65535 {
		s.class("legacy:>65535_nodes")
	}
	if len(m.AllKeys) > 100 && m.AllKeys[0] == "" {
		s.class("legacy:empty_key_root_in_large_trie")
	}
	if longStep(m.AllKeys, 256) {
		s.class("legacy:step>255_nibbles")
	}
	if c.Opt.complete() {
		// full prefixes: exact answers for absent keys and correct scans
		qs := queries(m.AllKeys, c.Win, c.Extra, false)
		err = guard("exact lookup on an allpref stream", func() error {
			for _, x := range qs {
				if e := checkExact(st, m, x, valued); e != nil {
					return e
				}
			}
			return nil
		})
		if err != nil {
			return err
		}
		scans := append(sweepScans(qs),
			ScanSpec{API: "from", Start: "", InclStart: true, WithValue: true, Stop: -1},
			ScanSpec{API: "iter", Start: "", InclStart: true, WithValue: false, Stop: -1})
		for i := range scans {
			out, calls, exOK, pv := runScan(st, &scans[i])
			if pv != nil {
				return viol("panic", "scan on an allpref-loaded trie panicked: %v", pv)
			}
			if e := compareScan(c, m, &scans[i], out, calls, exOK); e != nil {
				return e
			}
		}
		s.calls(4*len(qs) + len(scans))
	}
	// upgrade path (C05 applied to a legacy-loaded trie): re-marshal in the
	// current format, reload, and compare every answer
	var st2 *trie.SlimTrie
	err = guard("Marshal/Unmarshal of a legacy-loaded trie", func() error {
		b2, e := st.Marshal()
		if e != nil {
			return viol("marshal", "Marshal of a %s-loaded trie failed: %v", c.Load, e)
		}
		st2 = emptyTrie(c)
		if e := st2.Unmarshal(b2); e != nil {
			return viol("unmarshal", "a %s-loaded trie re-marshalled in the current format does not load: %v", c.Load, e)
		}
		b3, e := st2.Marshal()
		if e != nil || !bytes.Equal(b2, b3) {
			return viol("unstable", "re-marshalling the upgraded trie gives different bytes")
		}
		return nil
	})
	if err != nil {
		return err
	}
	uq := queries(m.AllKeys, c.Win, c.Extra, false)
	if len(uq) > 600 {
		uq = uq[:600]
	}
	uo := obsOpt{typed: typedEnc(c), scans: scansOK(c), stat: true, str: len(m.AllKeys) < 1000}
	if d := diffObs(observe(st, uq, uo), observe(st2, uq, uo)); d != "" {
		return viol("roundtrip-differs", "%s-loaded trie vs its re-marshalled and reloaded copy: %s", c.Load, d)
	}
	s.done(c, len(m.AllKeys) >= 2 && converted, c.Load)
	return nil
}

// longStep: two adjacent keys share a run of at least n nibbles beyond the
// point where they separate from their other neighbours (approximation used
// only for the coverage histogram).
func longStep(keys []string, n int) bool {
	for i := 1; i < len(keys); i++ {
		l := lcp(keys[i-1], keys[i])
		outer := 0
		if i >= 2 {
			outer = lcp(keys[i-2], keys[i-1])
		}
		if i+1 < len(keys) {
			if o := lcp(keys[i], keys[i+1]); o > outer {
				outer = o
			}
		}
		if (l-outer)*2 >= n {
			return true
		}
	}
	return false
}

// legacyFidelity compares the re-implemented writers with the archived files.
func legacyFidelity(repo string) (identical, different, missing int, diffs []string) {
	fam := map[string]string{"0.5.0": "A", "0.5.1": "B", "0.5.2": "B", "0.5.3": "B", "0.5.4": "C1", "0.5.5": "C1", "0.5.6": "C1", "0.5.7": "C2", "0.5.8": "D", "0.5.9": "E"}
	names := []string{"10ll16k", "10vl5", "11vl5", "20kl10", "20kvl10", "300vl50", "50kl10", "50kvl10", "empty"}
	dir := filepath.Join(repo, "trie", "testdata")
	for _, name := range names {
		keys := testkeys.Load(name)
		c := &Case{Keys: hexes(keys), Enc: "I32", HasVals: true, Opt: OptSpec{1, 0, 0, 0}}
		for i := range keys {
			c.Vals = append(c.Vals, Hex(leBytes(uint64(i), 4)))
		}
		for v, f := range fam {
			want, err := os.ReadFile(filepath.Join(dir, fmt.Sprintf("slimtrie-data-%s-%s", name, v)))
			if err != nil {
				continue
			}
			got, err := legacyStream(c, f)
			if err == nil && bytes.Equal(got, want) {
				identical++
			} else {
				different++
				diffs = append(diffs, fmt.Sprintf("%s-%s", name, v))
			}
		}
		for on, o := range map[string]OptSpec{"nopref": {0, 0, 0, 0}, "innpref": {0, 2, 0, 0}, "allpref": {0, 0, 0, 2}} {
			want, err := os.ReadFile(filepath.Join(dir, fmt.Sprintf("slimtrie-data-%s-%s-0.5.10", name, on)))
			if err != nil {
				continue
			}
			cc := *c
			cc.Opt = o
			got, err := legacyStream(&cc, "0.5.10")
			if err == nil && bytes.Equal(got, want) {
				identical++
			} else {
				different++
				diffs = append(diffs, fmt.Sprintf("%s-%s-0.5.10", name, on))
			}
		}
	}
	return
}

// liveCheck wraps a property check with a two-object history: c.Earlier is
// built first and kept alive, its answers are recorded, the property's own check
// runs (it builds, loads, and sometimes fails to build, other tries), and the
// earlier trie must then still give exactly the recorded answers.
func liveCheck(check func(*Case, *Stats) error) func(*Case, *Stats) error {
	return func(c *Case, s *Stats) error {
		if c.Earlier == nil {
			return check(c, s)
		}
		e := *c.Earlier
		e.Load = ""
		em := newModel(&e)
		var est *trie.SlimTrie
		err := guard("NewSlimTrie (earlier instance)", func() error {
			var be error
			est, be = e.build()
			if be != nil {
				return viol("build", "NewSlimTrie rejected valid input: %v", be)
			}
			return nil
		})
		if err != nil {
			return err
		}
		qs := append([]string{}, em.AllKeys...)
		if len(qs) > 300 {
			qs = append(qs[:150], qs[len(qs)-150:]...)
		}
		for i, x := range queries(em.AllKeys, e.Win, nil, false) {
			if i < 200 {
				qs = append(qs, x)
			}
		}
		o := obsOpt{typed: typedEnc(&e), scans: scansOK(&e), stat: true, str: len(e.Keys) < 800, marshal: true}
		before := observe(est, qs, o)
		// a by-value copy of a LOADED trie (the index package copies tries by value;
		// wrapping a loaded trie in a SlimIndex needs one): the copy is a trie of its
		// own and must keep its answers when the original is loaded with other data
		var orig *trie.SlimTrie
		var cp trie.SlimTrie
		var beforeCp []string
		var otherBytes []byte
		err = guard("Marshal/Unmarshal (by-value copy history)", func() error {
			ab, me := est.Marshal()
			if me != nil {
				return viol("marshal", "Marshal failed: %v", me)
			}
			orig = emptyTrie(&e)
			if ue := orig.Unmarshal(ab); ue != nil {
				return viol("unmarshal", "Unmarshal of own bytes failed: %v", ue)
			}
			cp = *orig
			otherBytes, me = usedInstance(&e).Marshal()
			if me != nil {
				return viol("marshal", "Marshal failed: %v", me)
			}
			return nil
		})
		if err != nil {
			return err
		}
		beforeCp = observe(&cp, qs, o)
		if err := check(c, s); err != nil {
			return err
		}
		err = guard("Unmarshal into the original of a by-value copy", func() error {
			if ue := orig.Unmarshal(otherBytes); ue != nil {
				return viol("unmarshal", "Unmarshal of a valid stream failed: %v", ue)
			}
			return nil
		})
		if err != nil {
			return err
		}
		if d := diffObs(beforeCp, observe(&cp, qs, o)); d != "" {
			return viol("copy-changed", "a by-value copy of a loaded trie answers differently after the ORIGINAL was loaded with other data: %s", d)
		}
		// one more unrelated build and a late rejected build, then look again
		if _, err := lateRejectedBuild(); err != nil {
			return err
		}
		if d := diffObs(before, observe(est, qs, o)); d != "" {
			return viol("live-instance-changed", "a trie that was built earlier and is still alive answers differently after later builds and loads: %s", d)
		}
		s.class("earlier_live_instance_rechecked")
		return nil
	}
}

// legacyLiveCheck (round g, C06-g): a trie LOADED from a legacy stream earlier and
// still alive must keep its answers while other legacy streams are loaded into
// other instances (the conversion of an old layout builds a new trie; whatever it
// uses to do so must not stay shared with the tries it produced).
func legacyLiveCheck(check func(*Case, *Stats) error) func(*Case, *Stats) error {
	return func(c *Case, s *Stats) error {
		if c.Earlier == nil {
			return check(c, s)
		}
		e := *c.Earlier
		e.Earlier = nil
		em := newModel(&e)
		eb, err := streamOf(&e)
		if err != nil {
			return err
		}
		var est *trie.SlimTrie
		err = guard("Unmarshal of a legacy stream (earlier instance)", func() error {
			est = emptyTrie(&e)
			if ue := est.Unmarshal(eb); ue != nil {
				return viol("legacy-rejected", "Unmarshal of a valid %s stream (%d bytes) failed: %v", e.Load, len(eb), ue)
			}
			return nil
		})
		if err != nil {
			return err
		}
		qs := append([]string{}, em.AllKeys...)
		if len(qs) > 300 {
			qs = append(qs[:150], qs[len(qs)-150:]...)
		}
		o := obsOpt{typed: typedEnc(&e), stat: true, str: len(e.Keys) < 800, marshal: true}
		before := observe(est, qs, o)
		// the earlier trie must be right to begin with (anchor to the model)
		err = guard("lookup on a legacy-loaded trie (earlier instance)", func() error {
			for i, k := range em.Keys {
				if v, f := est.Get(k); !f || !valEq(v, em.Want[i]) {
					return viol("legacy-get", "%s: Get(%s) = (%v,%v), want (%v,true)", e.Load, q(k), v, f, em.Want[i])
				}
			}
			return nil
		})
		if err != nil {
			return err
		}
		if err := check(c, s); err != nil {
			return err
		}
		// one more load of the earlier stream into yet another instance
		err = guard("Unmarshal of a legacy stream (third instance)", func() error {
			third := emptyTrie(&e)
			if ue := third.Unmarshal(eb); ue != nil {
				return viol("legacy-rejected", "Unmarshal of a valid %s stream failed when offered a second time: %v", e.Load, ue)
			}
			return nil
		})
		if err != nil {
			return err
		}
		if d := diffObs(before, observe(est, qs, o)); d != "" {
			return viol("live-instance-changed", "a trie loaded from a %s stream earlier and still alive answers differently after other legacy streams were loaded into other instances: %s", e.Load, d)
		}
		s.class("earlier_legacy_loaded_instance_rechecked")
		return nil
	}
}
