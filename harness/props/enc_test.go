package props

import (
	"fmt"
	"hash/fnv"
	"strings"
	"testing"

	"pgregory.net/rapid"
)

var edge64 = func() []int64 {
	var out []int64
	for k := uint(0); k < 64; k++ {
		v := int64(1) << k
		out = append(out, v, v-1, v+1, -v, -v-1, -v+1)
	}
	out = append(out, 0, -1, 1, -9223372036854775808, 9223372036854775807)
	return out
}()

func TestC15(t *testing.T) {
	runProp(t, "C15", checkC15, func(t *rapid.T) *Case {
		c := &Case{}
		kinds := []string{"I8", "I16", "I32", "I64", "U16", "U32", "U64", "Int", "String16", "String16", "Bytes", "Dummy", "TypeEnc", "TypeEnc", "TypeEnc"}
		c.Kind = kinds[pickU(t, "kind", len(kinds))]
		c.Gen = c.Kind
		if rapid.Bool().Draw(t, "junk?") {
			c.Junk = Hex(rapid.SliceOfN(rapid.Byte(), 1, 12).Draw(t, "junk"))
		}
		switch c.Kind {
		case "String16":
			n := rapid.IntRange(1, 4).Draw(t, "n")
			for i := 0; i < n; i++ {
				l := rapid.OneOf(rapid.SampledFrom([]int{0, 1, 2, 255, 256, 257, 65534, 65535}), rapid.IntRange(0, 65535), rapid.IntRange(0, 40)).Draw(t, "len")
				fill := rapid.Byte().Draw(t, "fill")
				seed := rapid.Uint64().Draw(t, "sseed")
				b := []byte(strings.Repeat(string([]byte{fill}), l))
				if rapid.Bool().Draw(t, "vary") {
					r := sm64{seed}
					for j := range b {
						b[j] = byte(r.next())
					}
				}
				c.Vals = append(c.Vals, Hex(b))
			}
		case "Bytes":
			n := rapid.IntRange(1, 4).Draw(t, "n")
			for i := 0; i < n; i++ {
				l := rapid.OneOf(rapid.IntRange(1, 16), rapid.SampledFrom([]int{1, 255, 256, 4096, 65536})).Draw(t, "len")
				seed := rapid.Uint64().Draw(t, "bseed")
				r := sm64{seed}
				b := make([]byte, l)
				for j := range b {
					b[j] = byte(r.next())
				}
				c.Vals = append(c.Vals, Hex(b))
			}
		case "TypeEnc":
			c.Block = pickU(t, "eltkind", teKinds)
			c.Scrib = rapid.IntRange(0, 1).Draw(t, "bigendian") | rapid.IntRange(0, 1).Draw(t, "pointer")<<1 | rapid.IntRange(0, 3).Draw(t, "ctor")<<2
			n := rapid.IntRange(1, 6).Draw(t, "n")
			for i := 0; i < n; i++ {
				c.Vals = append(c.Vals, Hex(rapid.SliceOfN(rapid.Byte(), 0, 56).Draw(t, "fields")))
			}
		default:
			c.Ints = rapid.SliceOfN(rapid.OneOf(rapid.Int64(), rapid.SampledFrom(edge64)), 1, 24).Draw(t, "ints")
		}
		return c
	})
}
func TestReplayC15(t *testing.T) { runReplay(t, "C15", checkC15) }

// TestC15Exhaustive enumerates whole integer domains: 8 and 16 bit always,
// 32 bit in the thorough tier (sharded), a dense boundary-biased sample otherwise.
func TestC15Exhaustive(t *testing.T) {
	st := newStats("C15")
	defer st.write()
	shard, nshards := envInt("VERIF_SHARD", 0), envInt("VERIF_NSHARDS", 1)
	fail := func(kind string, raw uint64, junk []byte, err error) {
		if _, ok := err.(*violation); !ok {
			t.Fatalf("HARNESS ERROR: %v", err)
		}
		c := &Case{Prop: "C15", Kind: kind, Gen: "exhaustive", Ints: []int64{int64(raw)}, Junk: Hex(junk)}
		path := writeReplay("C15", c)
		fmt.Printf("VIOLATION property=C15 replay=%s\n", path)
		fmt.Printf("DETAIL property=C15 %s\n", oneLine(err.Error()))
		t.Fatalf("C15 violated: %v", err)
	}
	junks := [][]byte{nil, {0xff}, {0x00, 0x01, 0x80}}
	count := func(kind string, n int64, nt int64) {
		st.mu.Lock()
		st.Evaluations += int(n)
		st.Exhaustive[kind] += n
		st.Calls += 4 * n
		st.mu.Unlock()
		_ = nt
	}
	// the distinct-nontrivial count for enumerated domains: values with the top bit set
	addNT := func(kind string, raw uint64) {
		h := fnv.New64a()
		fmt.Fprintf(h, "%s/%d", kind, raw)
		st.mu.Lock()
		if len(st.nt) < maxDistinct {
			st.nt[h.Sum64()] = struct{}{}
		} else {
			st.NTCapped = true
		}
		st.mu.Unlock()
	}
	if shard == 0 {
		for raw := uint64(0); raw < 256; raw++ {
			for _, j := range junks {
				if err := intLaw("I8", raw, j); err != nil {
					fail("I8", raw, j, err)
				}
			}
			if raw >= 128 {
				addNT("I8", raw)
			}
		}
		count("I8 all 2^8 values x 3 junk suffixes", 256*3, 128)
		for _, kind := range []string{"I16", "U16"} {
			for raw := uint64(0); raw < 65536; raw++ {
				for _, j := range junks[:2] {
					if err := intLaw(kind, raw, j); err != nil {
						fail(kind, raw, j, err)
					}
				}
				if raw >= 32768 {
					addNT(kind, raw)
				}
			}
			count(kind+" all 2^16 values x 2 junk suffixes", 65536*2, 32768)
		}
		st.addSample(map[string]interface{}{"kind": "I16", "raw": 0x8000, "junk": "ff", "note": "one of the enumerated values"})
	}
	if thorough() {
		// all 2^32 values of I32 and U32, split over the shards
		per := uint64(1<<32) / uint64(nshards)
		lo := per * uint64(shard)
		hi := lo + per
		if shard == nshards-1 {
			hi = 1 << 32
		}
		for _, kind := range []string{"I32", "U32"} {
			for raw := lo; raw < hi; raw++ {
				if err := intLaw(kind, raw, nil); err != nil {
					fail(kind, raw, nil, err)
				}
			}
			count(kind+" all 2^32 values", int64(hi-lo), 0)
			addNT(kind, lo|0x80000000)
		}
	} else {
		// dense sample: every value with <= 2 bits set or cleared, all 2^16 low and high halves
		for _, kind := range []string{"I32", "U32"} {
			n := int64(0)
			for raw := uint64(shard); raw < 1<<16; raw += uint64(nshards) {
				for _, v := range []uint64{raw, raw << 16, raw<<16 | 0xffff, 0xffff0000 | raw, raw<<8 | 0x80000000} {
					if err := intLaw(kind, v&0xffffffff, junks[1]); err != nil {
						fail(kind, v, junks[1], err)
					}
					n++
				}
				if raw&0x3ff == uint64(shard) {
					addNT(kind, raw|0x80000000)
				}
			}
			count(kind+" dense boundary-biased sample", n, 0)
		}
	}
	// 64-bit and native int: every 2^k, 2^k +- 1 and negations
	if shard == 0 {
		for _, kind := range []string{"I64", "U64", "Int"} {
			for _, v := range edge64 {
				for _, j := range junks {
					if err := intLaw(kind, uint64(v), j); err != nil {
						fail(kind, uint64(v), j, err)
					}
				}
				if v < 0 {
					addNT(kind, uint64(v))
				}
			}
			count(kind+" powers of two +-1 and negations", int64(len(edge64)*3), 0)
		}
	}
}
