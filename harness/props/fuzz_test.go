package props

import (
	"fmt"
	"os"
	"strings"
	"sync"
	"testing"

	"github.com/openacid/slim/trie"
	"pgregory.net/rapid"
)

// Native go fuzz targets (thorough tier only). The structured part of the input
// selects a pre-built trie/stream from a deterministic pool; the byte part is the
// query / version string. The semantic oracle is inside the target. A failing
// input is saved by the go tool under testdata/fuzz/<Target>/; the driver then
// re-runs it as a plain test with VERIF_FUZZ_REPORT=1, which writes the Case
// replay file and prints the VIOLATION line.

type pooled struct {
	c  *Case
	m  *Model
	st *trie.SlimTrie
}

func buildPool(n int, g trieGenOpt, seedBase int) []pooled {
	gen := rapid.Custom(func(t *rapid.T) *Case {
		c := genTrieCase(t, g)
		if len(c.Keys) > 3000 {
			c.Keys = c.Keys[:3000]
			if c.HasVals {
				c.Vals = c.Vals[:3000]
			}
		}
		return c
	})
	var out []pooled
	for i := 0; len(out) < n && i < 4*n; i++ {
		c := gen.Example(seedBase + i)
		_, st, err := c.load()
		if err != nil {
			continue // a failing build is the rapid checks' business, not the pool's
		}
		out = append(out, pooled{c: c, m: newModel(c), st: st})
	}
	return out
}

var (
	poolOnce       sync.Once
	poolComplete   []pooled
	poolAny        []pooled
	poolStreams    []pooledStream
	poolStreamOnce sync.Once
)

func pools() ([]pooled, []pooled) {
	poolOnce.Do(func() {
		poolComplete = buildPool(200, trieGenOpt{complete: true}, 1000)
		poolAny = buildPool(240, trieGenOpt{}, 5000)
	})
	return poolComplete, poolAny
}

func fuzzFail(t *testing.T, prop string, c *Case, err error) {
	if os.Getenv("VERIF_FUZZ_REPORT") != "" {
		path := writeReplay(prop, c)
		fmt.Printf("VIOLATION property=%s replay=%s\n", prop, path)
		fmt.Printf("DETAIL property=%s %s\n", prop, oneLine(err.Error()))
	}
	t.Fatalf("%s violated: %v", prop, err)
}

func FuzzC03(f *testing.F) {
	pc, _ := pools()
	for i, p := range pc {
		for j, x := range queries(p.m.AllKeys, p.c.Win, nil, false) {
			if j%60 == 0 {
				f.Add(uint16(i), []byte(x))
			}
		}
	}
	f.Fuzz(func(t *testing.T, idx uint16, qb []byte) {
		p := pc[int(idx)%len(pc)]
		x := string(qb)
		err := guard("lookup on a Complete trie", func() error {
			return checkExact(p.st, p.m, x, p.c.HasVals && p.c.Enc != "Dummy" && p.c.Enc != "OptU16")
		})
		if err != nil {
			cc := *p.c
			cc.Prop, cc.Extra = "C03", append(append([]Hex{}, p.c.Extra...), Hex(x))
			fuzzFail(t, "C03", &cc, err)
		}
	})
}

// relationsC10 is the per-query oracle of C10 (same relations as checkC10).
func relationsC10(p pooled, x string) error {
	c, st := p.c, p.st
	valued := c.HasVals && c.Enc != "Dummy" && c.Enc != "OptU16"
	return guard(fmt.Sprintf("lookup of %s", q(x)), func() error {
		v, found := st.Get(x)
		id := st.GetID(x)
		if found != (id >= 0) {
			return viol("inconsistent", "Get(%s) found=%v but GetID=%d", q(x), found, id)
		}
		if !found && v != nil {
			return viol("inconsistent", "Get(%s) not found but value %v", q(x), v)
		}
		rv, rfound := st.RangeGet(x)
		if found && (!rfound || !valEq(rv, v)) {
			return viol("inconsistent", "Get(%s) = %v but RangeGet = (%v,%v)", q(x), v, rv, rfound)
		}
		_, e, _ := st.Search(x)
		if valued {
			if found != (e != nil) || (found && !valEq(e, v)) {
				return viol("inconsistent", "Get(%s) = (%v,%v) but Search eq = %v", q(x), v, found, e)
			}
		}
		if i := p.m.find(x); i >= 0 {
			if !found || !valEq(v, p.m.Want[i]) {
				return viol("false-negative", "Get(%s) = (%v,%v), want (%v,true)", q(x), v, found, p.m.Want[i])
			}
		}
		return nil
	})
}

func FuzzC10(f *testing.F) {
	_, pa := pools()
	for i, p := range pa {
		for j, x := range queries(p.m.AllKeys, p.c.Win, nil, false) {
			if j%60 == 0 {
				f.Add(uint16(i), []byte(x))
			}
		}
		f.Add(uint16(i), []byte(strings.Repeat("\x00", 300)))
		f.Add(uint16(i), []byte(strings.Repeat("\xff", 300)))
	}
	f.Fuzz(func(t *testing.T, idx uint16, qb []byte) {
		p := pa[int(idx)%len(pa)]
		if err := relationsC10(p, string(qb)); err != nil {
			cc := *p.c
			cc.Prop, cc.Extra = "C10", append(append([]Hex{}, p.c.Extra...), Hex(qb))
			fuzzFail(t, "C10", &cc, err)
		}
	})
}

type pooledStream struct {
	c      *Case
	stream []byte
}

func streamPool() []pooledStream {
	poolStreamOnce.Do(func() {
		gen := rapid.Custom(func(t *rapid.T) *Case {
			fams := []famWeight{{"K1", 5}, {"K2", 3}, {"K3", 2}, {"K5", 1}}
			c := &Case{}
			keys, fam := genKeysFam(t, fams, sizeCap{small: 60, big: 300, huge: 300})
			c.Gen, c.Keys = fam, hexes(keys)
			c.Enc = fixedEncNames[pickU(t, "enc", len(fixedEncNames))]
			c.Opt = genOpt(t)
			c.HasVals = rapid.IntRange(0, 3).Draw(t, "hasvals") != 0
			if c.HasVals {
				c.Vals, c.VMode = genVals(t, len(keys), c.Enc, false)
			}
			if pickU(t, "legacy?", 3) != 0 {
				forceLegacy(t, c)
			}
			return c
		})
		for i := 0; len(poolStreams) < 150 && i < 600; i++ {
			c := gen.Example(9000 + i)
			b, err := streamOf(c)
			if err != nil || len(b) < 32 {
				continue
			}
			poolStreams = append(poolStreams, pooledStream{c, b})
		}
	})
	return poolStreams
}

var compatibleTriples = map[string]bool{"1.0.0": true, "0.5.8": true, "0.5.9": true, "0.5.10": true, "0.5.11": true, "0.5.12": true}

func FuzzC07(f *testing.F) {
	ps := streamPool()
	for i, p := range ps {
		f.Add(uint16(i), uint32(len(p.stream)/2), []byte{})
		f.Add(uint16(i), uint32(32), []byte{})
		f.Add(uint16(i), uint32(0), []byte("0.5.13"))
	}
	for _, v := range []string{"2.0.0", "0.5.7", "1.0.1", "0.5.12-rc1", "v1.0.0", "", "0.5", "1.0.0\x00x", "0123456789abcdef"} {
		f.Add(uint16(0), uint32(0), []byte(v))
	}
	f.Fuzz(func(t *testing.T, idx uint16, cut uint32, ver []byte) {
		p := ps[int(idx)%len(ps)]
		cc := *p.c
		cc.Prop = "C07"
		if len(ver) == 0 {
			// interrupted write at one cut point
			k := int(cut) % len(p.stream)
			other, okeys := otherData(p.c)
			inst := emptyTrie(p.c)
			what := fmt.Sprintf("Unmarshal of the first %d of %d bytes of a %s stream", k, len(p.stream), layoutName(p.c))
			err := guard(what, func() error {
				if e := inst.Unmarshal(other); e != nil {
					return viol("valid-rejected", "preloading a valid stream failed: %v", e)
				}
				if e := inst.Unmarshal(append([]byte{}, p.stream[:k]...)); e == nil {
					return viol("truncated-accepted", "%s succeeded", what)
				}
				return nil
			})
			if err == nil {
				err = checkAnswersEmpty(inst, okeys, "after rejected "+what)
			}
			if err != nil {
				cc.Cuts = []int{k}
				fuzzFail(t, "C07", &cc, err)
			}
			return
		}
		if len(ver) > 16 {
			ver = ver[:16]
		}
		trimmed := strings.TrimRight(string(ver), "\x00")
		if compatibleTriples[strings.SplitN(trimmed, "+", 2)[0]] {
			return // compatible (possibly with build metadata): no must-reject expectation
		}
		cc.Kind, cc.Ver, cc.Probe, cc.Gen = "version", Hex(trimmed), []int32{0}, "fuzz"
		if err := checkC07Version(&cc, newStats("C07")); err != nil {
			if _, ok := err.(*violation); ok {
				fuzzFail(t, "C07", &cc, err)
			}
		}
	})
}

// FuzzC04: scans on pooled Complete tries; start/end strings and flags from the fuzzer.
func FuzzC04(f *testing.F) {
	pc, _ := pools()
	for i, p := range pc {
		for j, x := range queries(p.m.AllKeys, p.c.Win, nil, false) {
			if j%90 == 0 {
				f.Add(uint16(i), []byte(x), []byte(x+"\xff"), uint8(j))
			}
		}
	}
	f.Fuzz(func(t *testing.T, idx uint16, start, end []byte, flags uint8) {
		p := pc[int(idx)%len(pc)]
		sc := ScanSpec{API: []string{"from", "fromto", "iter"}[int(flags>>5)%3], Start: Hex(start), InclStart: flags&1 == 1,
			End: Hex(end), InclEnd: flags&2 == 2, WithValue: flags&4 == 4, Stop: -1}
		if flags&8 == 8 {
			sc.Stop = int(flags>>4) & 1
		}
		out, calls, exOK, pv := runScan(p.st, &sc)
		var err error
		if pv != nil {
			err = viol("panic", "scan %+v on a Complete trie panicked: %v", sc, pv)
		} else {
			err = compareScan(p.c, p.m, &sc, out, calls, exOK)
		}
		if err != nil {
			cc := *p.c
			cc.Prop, cc.Scans = "C04", []ScanSpec{sc}
			fuzzFail(t, "C04", &cc, err)
		}
	})
}

// ---------------------------------------------------------------------------
// FuzzC01 (thorough tier of C01): the fuzz input IS the key set. The bytes are
// decoded into options, an encoder, a value layout and a list of keys, so that
// coverage feedback from the builder and the query code steers the search
// towards trie shapes the rapid generators draw rarely. Every decoded case is a
// legal input (keys are sorted and de-duplicated by construction); the oracle is
// the model-based check of C01 followed by those of C02, C09 and C10 on the same
// case, and of C03 when the case is Complete.

var fuzzC01Encs = []string{"I32", "U16", "String16", "I64", "OptU16", "Bytes3", "I8", "TBEU32"}

func decodeFuzzCase(data []byte) *Case {
	if len(data) < 3 {
		return nil
	}
	o, e, vm := data[0], data[1], data[2]
	c := &Case{Gen: "fuzz"}
	c.Opt = OptSpec{Tri(o % 3), Tri(o / 3 % 3), Tri(o / 9 % 3), Tri(o / 27 % 3)}
	c.Enc = fuzzC01Encs[int(e)%len(fuzzC01Encs)]
	c.Load = []string{"", "reload", "proto", "over"}[int(e>>4)%4]
	set := map[string]struct{}{}
	rest := data[3:]
	prev := ""
	for len(rest) > 0 && len(set) < 600 {
		h := rest[0]
		rest = rest[1:]
		n := int(h & 15)
		if n > len(rest) {
			n = len(rest)
		}
		k := string(rest[:n])
		rest = rest[n:]
		switch h >> 6 {
		case 1: // extend the previous key (prefix keys, long shared runs)
			k = prev + k
		case 2: // share all but the last byte of the previous key
			if len(prev) > 0 {
				k = prev[:len(prev)-1] + k
			}
		case 3: // repeat the material: long keys
			k = strings.Repeat(k, 1+int(h>>4&3)*7)
		}
		set[k] = struct{}{}
		prev = k
	}
	keys := sortedSet(set)
	c.Keys = hexes(keys)
	c.HasVals = vm%4 != 3
	if c.HasVals {
		w := c.spec().width
		if w == 0 {
			w = 2
		}
		for i, k := range keys {
			var v uint64
			switch vm % 4 {
			case 0:
				v = uint64(i) * 0x9e3779b97f4a7c15
			case 1:
				v = uint64(i / (1 + int(vm>>2)%5)) // runs of equal neighbours
			case 2:
				v = uint64(len(k)) % 3 // few distinct values, A B A patterns
			}
			c.Vals = append(c.Vals, Hex(leBytes(v, w)))
		}
	}
	if len(keys) > 0 {
		c.Win = int(vm>>4) % len(keys)
	}
	return c
}

var fuzzStats = newStats("C01")

func FuzzC01(f *testing.F) {
	f.Add([]byte{0, 0, 0, 1, 'a', 1, 'b', 0x42, 'c', 'd'})
	f.Add([]byte{81 - 27, 2, 1, 0, 2, 0, 0, 0x41, 0, 0x41, 0, 3, 0xff, 0xff, 0xfe})
	f.Add([]byte{27 * 2, 0, 5, 4, 'a', 'b', 'c', 'd', 0x81, 'e', 0x82, 'f', 'g', 0xc3, 'x', 'y', 'z'})
	for i := 0; i < 12; i++ { // eleven-plus first bytes below one prefix: a 257-bit node
		b := []byte{byte(i * 7), byte(i), byte(i * 3)}
		for j := 0; j < 14; j++ {
			b = append(b, 2, byte(j*17+i), byte(i))
		}
		f.Add(b)
	}
	f.Fuzz(func(t *testing.T, data []byte) {
		c := decodeFuzzCase(data)
		if c == nil {
			return
		}
		c.Prop = "C01"
		err := safeCheck(checkFuzzC01, c, fuzzStats)
		if err == nil {
			return
		}
		if _, ok := err.(*violation); !ok {
			t.Fatalf("HARNESS ERROR (not a violation): %v", err)
		}
		fuzzFail(t, "C01", c, err)
	})
}
