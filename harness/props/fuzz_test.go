package props

import (
	"fmt"
	"os"
	"strings"
	"sync"
	"testing"

	"github.com/openacid/slim/trie"
	"pgregory.net/rapid"
)

// Native go fuzz targets (thorough tier only). The structured part of the input
// selects a pre-built trie/stream from a deterministic pool; the byte part is the
// query / version string. The semantic oracle is inside the target. A failing
// input is saved by the go tool under testdata/fuzz/<Target>/; the driver then
// re-runs it as a plain test with VERIF_FUZZ_REPORT=1, which writes the Case
// replay file and prints the VIOLATION line.

type pooled struct {
	c  *Case
	m  *Model
	st *trie.SlimTrie
}

func buildPool(n int, g trieGenOpt, seedBase int) []pooled {
	gen := rapid.Custom(func(t *rapid.T) *Case {
		c := genTrieCase(t, g)
		if len(c.Keys) > 3000 {
			c.Keys = c.Keys[:3000]
			if c.HasVals {
				c.Vals = c.Vals[:3000]
			}
		}
		return c
	})
	var out []pooled
	for i := 0; len(out) < n && i < 4*n; i++ {
		c := gen.Example(seedBase + i)
		_, st, err := c.load()
		if err != nil {
			continue // a failing build is the rapid checks' business, not the pool's
		}
		out = append(out, pooled{c: c, m: newModel(c), st: st})
	}
	return out
}

var (
	poolOnce       sync.Once
	poolComplete   []pooled
	poolAny        []pooled
	poolStreams    []pooledStream
	poolStreamOnce sync.Once
)

func pools() ([]pooled, []pooled) {
	poolOnce.Do(func() {
		poolComplete = buildPool(200, trieGenOpt{complete: true}, 1000)
		poolAny = buildPool(240, trieGenOpt{}, 5000)
	})
	return poolComplete, poolAny
}

func fuzzFail(t *testing.T, prop string, c *Case, err error) {
	if os.Getenv("VERIF_FUZZ_REPORT") != "" {
		path := writeReplay(prop, c)
		fmt.Printf("VIOLATION property=%s replay=%s\n", prop, path)
		fmt.Printf("DETAIL property=%s %s\n", prop, oneLine(err.Error()))
	}
	t.Fatalf("%s violated: %v", prop, err)
}

func FuzzC03(f *testing.F) {
	pc, _ := pools()
	for i, p := range pc {
		for j, x := range queries(p.m.AllKeys, p.c.Win, nil, false) {
			if j%60 == 0 {
				f.Add(uint16(i), []byte(x))
			}
		}
	}
	f.Fuzz(func(t *testing.T, idx uint16, qb []byte) {
		p := pc[int(idx)%len(pc)]
		x := string(qb)
		err := guard("lookup on a Complete trie", func() error {
			return checkExact(p.st, p.m, x, p.c.HasVals && p.c.Enc != "Dummy" && p.c.Enc != "OptU16")
		})
		if err != nil {
			cc := *p.c
			cc.Prop, cc.Extra = "C03", append(append([]Hex{}, p.c.Extra...), Hex(x))
			fuzzFail(t, "C03", &cc, err)
		}
	})
}

// relationsC10 is the per-query oracle of C10 (same relations as checkC10).
func relationsC10(p pooled, x string) error {
	c, st := p.c, p.st
	valued := c.HasVals && c.Enc != "Dummy" && c.Enc != "OptU16"
	return guard(fmt.Sprintf("lookup of %s", q(x)), func() error {
		v, found := st.Get(x)
		id := st.GetID(x)
		if found != (id >= 0) {
			return viol("inconsistent", "Get(%s) found=%v but GetID=%d", q(x), found, id)
		}
		if !found && v != nil {
			return viol("inconsistent", "Get(%s) not found but value %v", q(x), v)
		}
		rv, rfound := st.RangeGet(x)
		if found && (!rfound || !valEq(rv, v)) {
			return viol("inconsistent", "Get(%s) = %v but RangeGet = (%v,%v)", q(x), v, rv, rfound)
		}
		_, e, _ := st.Search(x)
		if valued {
			if found != (e != nil) || (found && !valEq(e, v)) {
				return viol("inconsistent", "Get(%s) = (%v,%v) but Search eq = %v", q(x), v, found, e)
			}
		}
		if i := p.m.find(x); i >= 0 {
			if !found || !valEq(v, p.m.Want[i]) {
				return viol("false-negative", "Get(%s) = (%v,%v), want (%v,true)", q(x), v, found, p.m.Want[i])
			}
		}
		return nil
	})
}

func FuzzC10(f *testing.F) {
	_, pa := pools()
	for i, p := range pa {
		for j, x := range queries(p.m.AllKeys, p.c.Win, nil, false) {
			if j%60 == 0 {
				f.Add(uint16(i), []byte(x))
			}
		}
		f.Add(uint16(i), []byte(strings.Repeat("\x00", 300)))
		f.Add(uint16(i), []byte(strings.Repeat("\xff", 300)))
	}
	f.Fuzz(func(t *testing.T, idx uint16, qb []byte) {
		p := pa[int(idx)%len(pa)]
		if err := relationsC10(p, string(qb)); err != nil {
			cc := *p.c
			cc.Prop, cc.Extra = "C10", append(append([]Hex{}, p.c.Extra...), Hex(qb))
			fuzzFail(t, "C10", &cc, err)
		}
	})
}

type pooledStream struct {
	c      *Case
	stream []byte
}

func streamPool() []pooledStream {
	poolStreamOnce.Do(func() {
		gen := rapid.Custom(func(t *rapid.T) *Case {
			fams := []famWeight{{"K1", 5}, {"K2", 3}, {"K3", 2}, {"K5", 1}}
			c := &Case{}
			keys, fam := genKeysFam(t, fams, sizeCap{small: 60, big: 300, huge: 300})
			c.Gen, c.Keys = fam, hexes(keys)
			c.Enc = fixedEncNames[pickU(t, "enc", len(fixedEncNames))]
			c.Opt = genOpt(t)
			c.HasVals = rapid.IntRange(0, 3).Draw(t, "hasvals") != 0
			if c.HasVals {
				c.Vals, c.VMode = genVals(t, len(keys), c.Enc, false)
			}
			if pickU(t, "legacy?", 3) != 0 {
				forceLegacy(t, c)
			}
			return c
		})
		for i := 0; len(poolStreams) < 150 && i < 600; i++ {
			c := gen.Example(9000 + i)
			b, err := streamOf(c)
			if err != nil || len(b) < 32 {
				continue
			}
			poolStreams = append(poolStreams, pooledStream{c, b})
		}
	})
	return poolStreams
}

var compatibleTriples = map[string]bool{"1.0.0": true, "0.5.8": true, "0.5.9": true, "0.5.10": true, "0.5.11": true, "0.5.12": true}

func FuzzC07(f *testing.F) {
	ps := streamPool()
	for i, p := range ps {
		f.Add(uint16(i), uint32(len(p.stream)/2), []byte{})
		f.Add(uint16(i), uint32(32), []byte{})
		f.Add(uint16(i), uint32(0), []byte("0.5.13"))
	}
	for _, v := range []string{"2.0.0", "0.5.7", "1.0.1", "0.5.12-rc1", "v1.0.0", "", "0.5", "1.0.0\x00x", "0123456789abcdef"} {
		f.Add(uint16(0), uint32(0), []byte(v))
	}
	f.Fuzz(func(t *testing.T, idx uint16, cut uint32, ver []byte) {
		p := ps[int(idx)%len(ps)]
		cc := *p.c
		cc.Prop = "C07"
		if len(ver) == 0 {
			// interrupted write at one cut point
			k := int(cut) % len(p.stream)
			other, okeys := otherData(p.c)
			inst := emptyTrie(p.c)
			what := fmt.Sprintf("Unmarshal of the first %d of %d bytes of a %s stream", k, len(p.stream), layoutName(p.c))
			err := guard(what, func() error {
				if e := inst.Unmarshal(other); e != nil {
					return viol("valid-rejected", "preloading a valid stream failed: %v", e)
				}
				if e := inst.Unmarshal(append([]byte{}, p.stream[:k]...)); e == nil {
					return viol("truncated-accepted", "%s succeeded", what)
				}
				return nil
			})
			if err == nil {
				err = checkAnswersEmpty(inst, okeys, "after rejected "+what)
			}
			if err != nil {
				cc.Cuts = []int{k}
				fuzzFail(t, "C07", &cc, err)
			}
			return
		}
		if len(ver) > 16 {
			ver = ver[:16]
		}
		trimmed := strings.TrimRight(string(ver), "\x00")
		if compatibleTriples[strings.SplitN(trimmed, "+", 2)[0]] {
			return // compatible (possibly with build metadata): no must-reject expectation
		}
		cc.Kind, cc.Ver, cc.Probe, cc.Gen = "version", Hex(trimmed), []int32{0}, "fuzz"
		if err := checkC07Version(&cc, newStats("C07")); err != nil {
			if _, ok := err.(*violation); ok {
				fuzzFail(t, "C07", &cc, err)
			}
		}
	})
}

// FuzzC04: scans on pooled Complete tries; start/end strings and flags from the fuzzer.
func FuzzC04(f *testing.F) {
	pc, _ := pools()
	for i, p := range pc {
		for j, x := range queries(p.m.AllKeys, p.c.Win, nil, false) {
			if j%90 == 0 {
				f.Add(uint16(i), []byte(x), []byte(x+"\xff"), uint8(j))
			}
		}
	}
	f.Fuzz(func(t *testing.T, idx uint16, start, end []byte, flags uint8) {
		p := pc[int(idx)%len(pc)]
		sc := ScanSpec{API: []string{"from", "fromto", "iter"}[int(flags>>5)%3], Start: Hex(start), InclStart: flags&1 == 1,
			End: Hex(end), InclEnd: flags&2 == 2, WithValue: flags&4 == 4, Stop: -1}
		if flags&8 == 8 {
			sc.Stop = int(flags>>4) & 1
		}
		out, calls, exOK, pv := runScan(p.st, &sc)
		var err error
		if pv != nil {
			err = viol("panic", "scan %+v on a Complete trie panicked: %v", sc, pv)
		} else {
			err = compareScan(p.c, p.m, &sc, out, calls, exOK)
		}
		if err != nil {
			cc := *p.c
			cc.Prop, cc.Scans = "C04", []ScanSpec{sc}
			fuzzFail(t, "C04", &cc, err)
		}
	})
}
