package props

import (
	"fmt"
	"testing"
)

func scaleFail(t *testing.T, prop, recipe string, err error) {
	if _, ok := err.(*violation); !ok {
		t.Fatalf("HARNESS ERROR: %v", err)
	}
	path := writeReplay(prop, &Case{Prop: prop, Gen: recipe})
	fmt.Printf("VIOLATION property=%s replay=%s\n", prop, path)
	fmt.Printf("DETAIL property=%s %s: %s\n", prop, recipe, oneLine(err.Error()))
	t.Fatalf("%s violated: %v", prop, err)
}

func TestC01BigLeaves(t *testing.T) {
	st := newStats("C01")
	defer st.write()
	if nativeIntBytes == 4 {
		return // needs more than the 32-bit address space comfortably gives
	}
	if err := bigLeaves(st); err != nil {
		scaleFail(t, "C01", "scale: 900000 counter keys (stride 5), 300-byte values", err)
	}
	st.addSample(map[string]interface{}{"gen": "scale", "keys": 900000, "value_bytes": 300, "note": "leaf array of 270 MB: bit offsets of the last leaves exceed 2^31; Get on every key, RangeGet/Search on a sample and the last 3000"})
}

func TestC14Huge(t *testing.T) {
	st := newStats("C14")
	defer st.write()
	if nativeIntBytes == 4 || !thorough() {
		return
	}
	if err := hugeI64(st); err != nil {
		scaleFail(t, "C14", "scale: 2^25+4096 counter keys (stride 1), int64 values i -> (i+1)*11400714819323198485", err)
	}
	st.addSample(map[string]interface{}{"gen": "scale", "keys": 1<<25 + 1<<12, "enc": "I64", "note": "bit offset of the last leaves exceeds 2^31; Get vs GetI64 on the first 4096, the last 12288 and every 61st key"})
}
