package props

import (
	"bytes"
	"fmt"
	"reflect"
	"unsafe"

	"github.com/openacid/slim/trie"
)

// ---------------------------------------------------------------------------
// C20: build and load neither modify nor alias caller-owned memory.

func deepCopyValues(v interface{}) interface{} {
	if v == nil {
		return nil
	}
	rv := reflect.ValueOf(v)
	cp := reflect.MakeSlice(rv.Type(), rv.Len(), rv.Len())
	for i := 0; i < rv.Len(); i++ {
		e := rv.Index(i)
		if b, ok := e.Interface().([]byte); ok {
			cp.Index(i).Set(reflect.ValueOf(append([]byte{}, b...)))
		} else {
			cp.Index(i).Set(e)
		}
	}
	return cp.Interface()
}

// valuesBitsEqual compares two value slices element by element; floating-point
// values by bit pattern (NaN != NaN for reflect.DeepEqual).
func valuesBitsEqual(a, b interface{}) bool {
	if a == nil || b == nil {
		return a == nil && b == nil
	}
	ra, rb := reflect.ValueOf(a), reflect.ValueOf(b)
	if ra.Len() != rb.Len() {
		return false
	}
	for i := 0; i < ra.Len(); i++ {
		if !valEq(ra.Index(i).Interface(), rb.Index(i).Interface()) {
			return false
		}
	}
	return true
}

// identity of the caller's slices: where every key and every byte-slice value
// starts, how long it is and (values) its capacity. Replacing an element by an
// equal one that lives elsewhere is a modification of the caller's slice that a
// comparison of contents cannot see (a later in-place write by the caller then
// hits another record).
type sliceIdent struct {
	p        unsafe.Pointer
	len, cap int
}

func identities(keys []string, vals interface{}) []sliceIdent {
	out := make([]sliceIdent, 0, 2*len(keys))
	for _, k := range keys {
		out = append(out, sliceIdent{unsafe.Pointer(unsafe.StringData(k)), len(k), 0})
	}
	if bv, ok := vals.([][]byte); ok {
		for _, v := range bv {
			out = append(out, sliceIdent{unsafe.Pointer(unsafe.SliceData(v)), len(v), cap(v)})
		}
	}
	return out
}

func scribble(b []byte, pattern int) {
	switch pattern % 3 {
	case 0:
		for i := range b {
			b[i] = 0x00
		}
	case 1:
		for i := range b {
			b[i] = 0xff
		}
	default:
		r := sm64{uint64(pattern)}
		for i := range b {
			b[i] = byte(r.next())
		}
	}
}

func checkC20(c *Case, s *Stats) error {
	keys := c.keys()
	m := newModel(c)
	// ---- build ----
	keysBefore := append([]string{}, keys...)
	vals := c.typedValues()
	valsBefore := deepCopyValues(vals)
	opt := c.Opt.opt()
	// a slice with SPARE CAPACITY: the element after the passed ones is caller memory too
	sentinel := trie.Opt{DedupValue: trie.Bool(false), InnerPrefix: trie.Bool(true), LeafPrefix: trie.Bool(false), Complete: trie.Bool(false)}
	backing := []trie.Opt{opt, sentinel, sentinel}
	sentinelPtrs := [4]*bool{sentinel.DedupValue, sentinel.InnerPrefix, sentinel.LeafPrefix, sentinel.Complete}
	optSlice := backing[:1]
	ptrs := [4]*bool{opt.DedupValue, opt.InnerPrefix, opt.LeafPrefix, opt.Complete}
	var pointees [4]bool
	for i, p := range ptrs {
		if p != nil {
			pointees[i] = *p
		}
	}
	identBefore := identities(keys, vals)
	var st *trie.SlimTrie
	var berr error
	err := guard("NewSlimTrie", func() error {
		if c.Scrib%2 == 1 {
			// the variadic spelling with a slice the caller keeps
			st, berr = trie.NewSlimTrie(c.encoder(), keys, vals, optSlice...)
		} else {
			st, berr = trie.NewSlimTrie(c.encoder(), keys, vals, opt)
		}
		return nil
	})
	if err != nil {
		return err
	}
	if c.Scrib%2 == 1 {
		s.class("options_passed_as_retained_slice")
		if len(optSlice) != 1 {
			return viol("opt-modified", "NewSlimTrie changed the length of the caller's option slice")
		}
		opt = optSlice[0]
		for bi := 1; bi < len(backing); bi++ {
			got := [4]*bool{backing[bi].DedupValue, backing[bi].InnerPrefix, backing[bi].LeafPrefix, backing[bi].Complete}
			if got != sentinelPtrs {
				return viol("opt-modified", "NewSlimTrie(..., opts[:1]...) overwrote element %d of the caller's option array (beyond the passed slice)", bi)
			}
		}
		if *sentinelPtrs[0] || !*sentinelPtrs[1] || *sentinelPtrs[2] || *sentinelPtrs[3] {
			return viol("opt-modified", "NewSlimTrie changed option values behind pointers of the caller's option array")
		}
	}
	if !reflect.DeepEqual(keys, keysBefore) {
		return viol("keys-modified", "NewSlimTrie modified the caller's key slice")
	}
	if !valuesBitsEqual(vals, valsBefore) {
		return viol("values-modified", "NewSlimTrie modified the caller's value slice")
	}
	for i, id := range identities(keys, vals) {
		if id != identBefore[i] {
			what, j := "key", i
			if i >= len(keys) {
				what, j = "value", i-len(keys)
			}
			return viol("values-modified", "NewSlimTrie replaced element %d of the caller's %s slice by an equal one at another address (start %p -> %p, len %d -> %d, cap %d -> %d)", j, what, identBefore[i].p, id.p, identBefore[i].len, id.len, identBefore[i].cap, id.cap)
		}
	}
	// Byte-slice values carved out of ONE arena (C20-h): the bytes between len and
	// cap of a value are caller memory too (here: the values that follow it). The
	// second arena holds some values SHORTER than the size the encoder declares:
	// whatever such a build does or answers is nobody's business here — it may be
	// rejected or panic — but it must not write into the caller's buffer either.
	if bv, ok := vals.([][]byte); ok && len(bv) > 0 {
		for variant := 0; variant < 2; variant++ {
			var arena []byte
			cut := make([][2]int, len(bv))
			for i, v := range bv {
				l := len(v)
				if variant == 1 && l > 0 {
					l -= (i + len(bv)) % 3 % (l + 1)
				}
				cut[i] = [2]int{len(arena), l}
				arena = append(arena, v[:l]...)
			}
			arena = append(arena, 0x5a, 0xa5, 0x5a, 0xa5, 0x5a, 0xa5, 0x5a, 0xa5) // and what lies behind the last value
			carved := make([][]byte, len(bv))
			for i, c2 := range cut {
				carved[i] = arena[c2[0] : c2[0]+c2[1]]
			}
			snapshot := append([]byte{}, arena...)
			func() {
				defer func() { recover() }()
				trie.NewSlimTrie(c.encoder(), keys, carved, c.Opt.opt())
			}()
			if !bytes.Equal(arena, snapshot) {
				at := 0
				for at < len(arena) && arena[at] == snapshot[at] {
					at++
				}
				return viol("values-modified", "NewSlimTrie wrote into the caller's value buffer: %d values cut out of one %d-byte arena (variant %d: %s), byte %d changed from %02x to %02x", len(bv), len(arena), variant, []string{"every value has its declared size", "some values are shorter than the declared size"}[variant], at, snapshot[at], arena[at])
			}
		}
		s.class("value_arena_checked")
	}
	after := [4]*bool{opt.DedupValue, opt.InnerPrefix, opt.LeafPrefix, opt.Complete}
	for i := range ptrs {
		if after[i] != ptrs[i] {
			return viol("opt-modified", "NewSlimTrie replaced pointer field %d of the caller's Opt", i)
		}
		if ptrs[i] != nil && *ptrs[i] != pointees[i] {
			return viol("opt-modified", "NewSlimTrie changed the value behind pointer field %d of the caller's Opt", i)
		}
	}
	if c.Kind == "invalid" {
		// rejected input: nothing else to check
		if berr == nil {
			return fmt.Errorf("harness: invalid-input case was accepted")
		}
		s.class("build_rejected_input_unmodified")
		s.done(c, true, "invalid")
		return nil
	}
	if berr != nil {
		return viol("build", "NewSlimTrie rejected valid input: %v", berr)
	}
	sh, ok := shapeOf(st)
	classify(s, c, m, sh, ok)

	qs := queries(m.AllKeys, c.Win, c.Extra, false)
	small := len(keys) < 1500

	// ---- the built trie does not alias the caller's keys and values ----
	// Byte-slice values (encode.Bytes hands the caller's slice to the builder) are
	// overwritten in place, the key slice is overwritten element by element.
	{
		ob := obsOpt{typed: typedEnc(c), scans: scansOK(c), stat: true, str: small, marshal: true}
		before := observe(st, qs, ob)
		touched := false
		if vals != nil {
			rv := reflect.ValueOf(vals)
			for i := 0; i < rv.Len(); i++ {
				if b, ok := rv.Index(i).Interface().([]byte); ok {
					scribble(b, c.Scrib+i)
					touched = true
				}
			}
		}
		for i := range keys {
			keys[i] = "overwritten-by-the-caller"
		}
		if d := diffObs(before, observe(st, qs, ob)); d != "" {
			return viol("build-aliases-input", "overwriting the caller's keys/values after NewSlimTrie changed an answer: %s", d)
		}
		if touched {
			s.class("caller_value_bytes_overwritten_after_build")
		}
		keys = c.keys() // restore for the rest of the check
	}

	// ---- Unmarshal does not modify or retain the input buffer ----
	stream, err := streamOf(c)
	if err != nil {
		return err
	}
	o := obsOpt{typed: typedEnc(c), scans: scansOK(c), stat: true, str: small, marshal: true}
	var pristine, loaded *trie.SlimTrie
	buf := append([]byte{}, stream...)
	err = guard("Unmarshal", func() error {
		pristine = emptyTrie(c)
		if e := pristine.Unmarshal(append([]byte{}, stream...)); e != nil {
			return viol("unmarshal", "Unmarshal of a valid %s stream failed: %v", layoutName(c), e)
		}
		loaded = emptyTrie(c)
		if e := loaded.Unmarshal(buf); e != nil {
			return viol("unmarshal", "Unmarshal of a valid %s stream failed: %v", layoutName(c), e)
		}
		return nil
	})
	if err != nil {
		return err
	}
	if !bytes.Equal(buf, stream) {
		return viol("input-modified", "Unmarshal modified its input buffer (%s stream, %d bytes)", layoutName(c), len(stream))
	}
	want := observe(pristine, qs, o)
	scribble(buf, c.Scrib)
	if d := diffObs(want, observe(loaded, qs, o)); d != "" {
		return viol("input-retained", "overwriting the input buffer after Unmarshal (%s stream) changed an answer: %s", layoutName(c), d)
	}

	// ---- Marshal output is independent of the trie ----
	err = guard("Marshal", func() error {
		out1, e := loaded.Marshal()
		if e != nil {
			return viol("marshal", "Marshal failed: %v", e)
		}
		snap := append([]byte{}, out1...)
		out2, _ := loaded.Marshal()
		scribble(out1, c.Scrib+1)
		if !bytes.Equal(out2, snap) {
			return viol("output-shared", "two Marshal results share memory: overwriting the first changed the second")
		}
		out3, _ := loaded.Marshal()
		if !bytes.Equal(out3, snap) {
			return viol("output-aliased", "overwriting bytes returned by Marshal changed a later Marshal")
		}
		scribble(out2, c.Scrib+2)
		scribble(out3, c.Scrib)
		return nil
	})
	if err != nil {
		return err
	}
	if d := diffObs(want, observe(loaded, qs, o)); d != "" {
		return viol("output-aliased", "overwriting bytes returned by Marshal changed an answer: %s", d)
	}
	// the fresh trie as well
	wantFresh := observe(st, qs, o)
	err = guard("Marshal of the fresh trie", func() error {
		out, e := st.Marshal()
		if e != nil {
			return viol("marshal", "Marshal failed: %v", e)
		}
		scribble(out, c.Scrib)
		return nil
	})
	if err != nil {
		return err
	}
	if d := diffObs(wantFresh, observe(st, qs, o)); d != "" {
		return viol("output-aliased", "overwriting bytes returned by Marshal of a fresh trie changed an answer: %s", d)
	}
	s.calls(6 * len(want))
	s.class(fmt.Sprintf("scribble=%d", c.Scrib%3))
	nt := ok && (sh.Prefixes > 0 || c.HasVals) && len(keys) >= 2
	s.done(c, nt, layoutName(c)+c.Opt.mode())
	return nil
}
