package props

import (
	"fmt"
	"testing"

	"pgregory.net/rapid"
)

// TestC01Large: a few deterministic LARGE key sets (> 65535 nodes, > 65535
// leaves, > 64 KiB of variable-length values, every short-table size up to 10),
// so that width- and index-boundary slips (16-bit ids, rank-index blocks,
// select-index strides) are exercised in the quick tier as well. Each set is
// checked for C01 (all retained keys), then C02/C09/C03-style answers are
// checked by the respective properties' own functions on the same case.
type largeSpec struct {
	name string
	keys func() []string
	enc  string
	vm   string
	opt  OptSpec
	load string
}

// largeSpecs lists the deterministic large shapes (see TestC01Large).
func largeSpecs() []largeSpec {
	type spec = largeSpec
	randKeys := func(n, klen int, seed uint64) func() []string {
		return func() []string {
			r := sm64{seed}
			set := map[string]struct{}{}
			for len(set) < n {
				b := make([]byte, klen)
				for j := range b {
					b[j] = byte(r.next())
				}
				set[string(b)] = struct{}{}
			}
			return sortedSet(set)
		}
	}
	counters := func(n int, stride uint64) func() []string {
		return func() []string {
			keys := make([]string, n)
			for i := range keys {
				v := uint64(i) * stride
				keys[i] = string([]byte{byte(v >> 24), byte(v >> 16), byte(v >> 8), byte(v)})
			}
			return keys
		}
	}
	shortTree := func(s int) func() []string {
		return func() []string {
			return rapid.Custom(func(t *rapid.T) []string { return genShortTarget(t, s, 70000) }).Example(s)
		}
	}
	// n pairs of keys; every pair hangs below its own inner node that carries a step
	pairs := func(n int, seed uint64) func() []string {
		return func() []string {
			base := randKeys(n, 4, seed)()
			keys := make([]string, 0, 2*n)
			for _, b := range base {
				keys = append(keys, b+"step"+"\x10", b+"step"+"\x20")
			}
			return keys
		}
	}
	specs := []spec{
		{"pairs70000/filter/I32 (>65535 steps)", pairs(70000, 7), "I32", "distinct", OptSpec{0, 0, 0, 0}, ""},
		{"pairs66000/complete/I32 (>65535 inner and leaf prefixes)", pairs(66000, 8), "I32", "distinct", OptSpec{0, 0, 0, 2}, "reload"},
		{"rand8x70000/filter/I32", randKeys(70000, 8, 1), "I32", "distinct", OptSpec{0, 0, 0, 0}, ""},
		{"rand8x70000/complete/I32/reload", randKeys(70000, 8, 2), "I32", "runs", OptSpec{0, 0, 0, 2}, "reload"},
		{"rand6x70000/leaf/String16", randKeys(70000, 6, 3), "String16", "distinct", OptSpec{1, 0, 2, 0}, ""},
		{"counters70000/inner/I64/proto", counters(70000, 3), "I64", "pairdup", OptSpec{0, 2, 0, 0}, "proto"},
		{"short10/filter/nil", shortTree(10), "I32", "", OptSpec{0, 0, 0, 0}, "reload"},
		{"short9/complete/I16", shortTree(9), "I16", "distinct", OptSpec{2, 2, 2, 0}, ""},
		{"short8/inner/I32/proto", shortTree(8), "I32", "runs", OptSpec{0, 2, 0, 0}, "proto"},
	}
	if thorough() {
		specs = append(specs,
			spec{"rand8x100000/complete/String16", randKeys(100000, 8, 4), "String16", "runs", OptSpec{0, 0, 0, 2}, "reload"},
			spec{"counters100000/filter/I8", counters(100000, 1), "I8", "distinct", OptSpec{1, 0, 0, 0}, ""},
			spec{"short7/leaf/U64", shortTree(7), "U64", "distinct", OptSpec{0, 0, 2, 0}, "proto"},
			spec{"rand8x70000/legacyE", randKeys(70000, 8, 5), "I32", "distinct", OptSpec{1, 0, 0, 0}, "E"},
			spec{"rand8x70000/0.5.10/complete", randKeys(70000, 8, 6), "I32", "distinct", OptSpec{0, 0, 0, 2}, "0.5.10"},
		)
	}
	return specs
}

// largeCase materialises one large shape as a Case.
func largeCase(sp largeSpec) *Case {
	keys := sp.keys()
	c := &Case{Gen: "large:" + sp.name, Keys: hexes(keys), Enc: sp.enc, Opt: sp.opt, Load: sp.load}
	if sp.vm != "" {
		c.HasVals = true
		c.VMode = sp.vm
		id := uint64(0)
		for j := range keys {
			switch sp.vm {
			case "distinct":
				id = uint64(j)
			case "runs":
				if j%3 == 0 {
					id++
				}
			case "pairdup":
				id = uint64(j / 2)
			}
			var p Hex
			if sp.enc == "String16" {
				p = Hex(fmt.Sprintf("v%x", id))
				if id%5000 == 0 {
					p = Hex(fmt.Sprintf("%0300x", id))
				}
			} else {
				p = Hex(leBytes(id, encSpecs[sp.enc].width))
			}
			c.Vals = append(c.Vals, p)
		}
	}
	c.Win = len(keys) / 2
	return c
}

func TestC01Large(t *testing.T) {
	st := newStats("C01")
	defer st.write()
	shard, nshards := envInt("VERIF_SHARD", 0), envInt("VERIF_NSHARDS", 1)
	for i, sp := range largeSpecs() {
		if i%nshards != shard {
			continue
		}
		c := largeCase(sp)
		c.Prop = "C01"
		checks := []struct {
			name string
			f    func(*Case, *Stats) error
		}{{"C01", checkC01}, {"C02", checkC02}, {"C09", checkC09}, {"C10", checkC10}}
		if !c.HasVals {
			checks = checks[:1]
		}
		if c.Opt.complete() {
			checks = append(checks, struct {
				name string
				f    func(*Case, *Stats) error
			}{"C03", checkC03})
		}
		for _, ck := range checks {
			sub := newStats("C01")
			if err := ck.f(c, sub); err != nil {
				if _, ok := err.(*violation); !ok {
					t.Fatalf("HARNESS ERROR: %v", err)
				}
				// a large case is identified by its recipe; keep only a window of keys in the replay
				path := writeReplay("C01", c)
				fmt.Printf("VIOLATION property=C01 replay=%s\n", path)
				fmt.Printf("DETAIL property=C01 large shape %s, oracle of %s: %s\n", sp.name, ck.name, oneLine(err.Error()))
				t.Fatalf("C01 violated on %s: %v", sp.name, err)
			}
			st.calls(int(sub.Calls))
			for k, v := range sub.Classes {
				if k == "n>10000" || k == "big_nodes>1" || len(k) > 10 && k[:10] == "short_size" {
					st.classN("large:"+k, v)
				}
			}
		}
		st.done(c, true, "large")
		st.class("large_shape_checked")
	}
}

// TestC05Large: the marshal round trip (checkC05) on the same large shapes, so
// that load-time code sees every short-table size up to 10 and > 65535 nodes in
// the quick tier as well.
func TestC05Large(t *testing.T) {
	st := newStats("C05")
	defer st.write()
	shard, nshards := envInt("VERIF_SHARD", 0), envInt("VERIF_NSHARDS", 1)
	for i, sp := range largeSpecs() {
		if i%nshards != shard {
			continue
		}
		if sp.load != "" && sp.load != "reload" && sp.load != "proto" {
			continue // legacy layouts are C06's business
		}
		c := largeCase(sp)
		c.Prop = "C05"
		c.Load = []string{"reload", "proto"}[i%2]
		sub := newStats("C05")
		if err := checkC05(c, sub); err != nil {
			if _, ok := err.(*violation); !ok {
				t.Fatalf("HARNESS ERROR: %v", err)
			}
			path := writeReplay("C05", c)
			fmt.Printf("VIOLATION property=C05 replay=%s\n", path)
			fmt.Printf("DETAIL property=C05 large shape %s: %s\n", sp.name, oneLine(err.Error()))
			t.Fatalf("C05 violated on %s: %v", sp.name, err)
		}
		st.calls(int(sub.Calls))
		st.done(c, true, "large")
		st.class("large_shape_round_trip")
	}
}

// TestC06Large: generated legacy streams with more than 65535 nodes / prefixes.
func TestC06Large(t *testing.T) {
	st := newStats("C06")
	defer st.write()
	shard, nshards := envInt("VERIF_SHARD", 0), envInt("VERIF_NSHARDS", 1)
	all := largeSpecs()
	pick := func(prefix string) largeSpec {
		for _, sp := range all {
			if len(sp.name) >= len(prefix) && sp.name[:len(prefix)] == prefix {
				return sp
			}
		}
		panic("harness: no large spec " + prefix)
	}
	type lc struct {
		sp     largeSpec
		layout string
		opt    OptSpec
	}
	cases := []lc{
		{pick("rand8x70000/filter"), "C1", OptSpec{1, 0, 0, 0}},
		{pick("pairs66000"), "0.5.10", OptSpec{0, 0, 0, 2}},
	}
	if thorough() {
		cases = append(cases,
			lc{pick("rand8x70000/filter"), "E", OptSpec{1, 0, 0, 0}},
			lc{pick("rand8x70000/filter"), "C2", OptSpec{1, 0, 0, 0}},
			lc{pick("pairs70000"), "D", OptSpec{1, 0, 0, 0}},
			lc{pick("pairs66000"), "0.5.11", OptSpec{0, 2, 0, 0}},
			lc{pick("counters70000"), "0.5.10", OptSpec{0, 0, 0, 0}},
		)
	}
	for i, x := range cases {
		if i%nshards != shard {
			continue
		}
		sp := x.sp
		sp.enc, sp.vm = "I32", "distinct"
		c := largeCase(sp)
		c.Prop, c.Opt, c.Load = "C06", x.opt, x.layout
		c.Gen = "large:" + sp.name + "/" + x.layout
		sub := newStats("C06")
		if err := checkC06(c, sub); err != nil {
			if _, ok := err.(*violation); !ok {
				t.Fatalf("HARNESS ERROR: %v", err)
			}
			path := writeReplay("C06", c)
			fmt.Printf("VIOLATION property=C06 replay=%s\n", path)
			fmt.Printf("DETAIL property=C06 large shape %s: %s\n", c.Gen, oneLine(err.Error()))
			t.Fatalf("C06 violated on %s: %v", c.Gen, err)
		}
		st.calls(int(sub.Calls))
		for k, v := range sub.Classes {
			if len(k) > 7 && k[:7] == "legacy:" {
				st.classN(k, v)
			}
		}
		st.done(c, true, "large")
		st.class("large_legacy_stream_checked")
	}
}
