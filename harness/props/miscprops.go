package props

import (
	"fmt"
	"sort"
	"strings"

	"github.com/golang/protobuf/proto"
	"github.com/openacid/slim/index"
	"github.com/openacid/slim/trie"
)

// ---------------------------------------------------------------------------
// C12: SlimIndex + key-verifying reader is an exact map.

type record struct {
	key, payload string
}

// blockReader maps an offset to the block of records stored there and returns
// a record only when the requested key is really in that block.
type blockReader struct {
	blocks   map[int64][]record
	reads    int
	rejected int
}

func (r *blockReader) Read(offset int64, key string) (string, bool) {
	r.reads++
	for _, rec := range r.blocks[offset] {
		if rec.key == key {
			return rec.payload, true
		}
	}
	r.rejected++
	return "", false
}

// checkC12 wraps the index check with a two-object history: an index built
// earlier and kept alive must answer the same after the case built another one.
func checkC12(c *Case, s *Stats) error {
	if c.Gen == "concurrent-round" {
		// a replay: the outcome depends on the schedule, so the round is repeated
		for rep := 0; rep < 40; rep++ {
			if err := concurrentIndexes(c.Block, s); err != nil {
				return err
			}
		}
		return nil
	}
	var ekeys []string
	for i := 0; i < 40; i++ {
		ekeys = append(ekeys, fmt.Sprintf("rec/%02d/%s", i/4, strings.Repeat("s", i%5)+string([]byte{byte('a' + i%4)})))
	}
	ekeys = uniqSorted(ekeys)
	erd := &blockReader{blocks: map[int64][]record{}}
	var eitems []index.OffsetIndexItem
	for i, k := range ekeys {
		off := int64(i/3) * 4096
		eitems = append(eitems, index.OffsetIndexItem{Key: k, Offset: off})
		erd.blocks[off] = append(erd.blocks[off], record{k, "earlier-" + k})
	}
	var esi *index.SlimIndex
	err := guard("NewSlimIndex (earlier index)", func() error {
		var e error
		esi, e = index.NewSlimIndex(eitems, erd)
		if e != nil {
			return viol("build", "NewSlimIndex rejected sorted records: %v", e)
		}
		return nil
	})
	if err != nil {
		return err
	}
	if err := checkC12inner(c, s); err != nil {
		return err
	}
	return guard("RangeGet on an index built earlier", func() error {
		for _, k := range ekeys {
			if v, f := esi.RangeGet(k); !f || v != "earlier-"+k {
				return viol("live-index-changed", "an index that was built earlier and is still alive: RangeGet(%s) = (%q,%v) after a later build, want its own record", q(k), v, f)
			}
		}
		return nil
	})
}

func checkC12inner(c *Case, s *Stats) error {
	keys := c.keys()
	block := c.Block
	if block < 1 {
		block = 1
	}
	// offsets: strictly increasing per block, with drawn gaps (c.Ints) so that they are not just 0,1,2..
	items := make([]index.OffsetIndexItem, len(keys))
	rd := &blockReader{blocks: map[int64][]record{}}
	off := int64(0)
	if len(c.Ints) > 0 {
		off = c.Ints[0]
	}
	payload := map[string]string{}
	for i, k := range keys {
		if i > 0 && i%block == 0 {
			gap := int64(1)
			if len(c.Ints) > 1 {
				g := c.Ints[1+(i/block)%(len(c.Ints)-1)]
				if g&1 == 1 {
					gap = 1 + (g&0x7fffffff)%100000
				} else {
					gap = 1 + (g>>1)&(1<<39-1) // far beyond 32 bits
				}
			}
			off += gap
		}
		items[i] = index.OffsetIndexItem{Key: k, Offset: off}
		p := fmt.Sprintf("payload-%d-%x", i, k)
		payload[k] = p
		rd.blocks[off] = append(rd.blocks[off], record{k, p})
	}
	var si *index.SlimIndex
	err := guard("NewSlimIndex", func() error {
		var e error
		si, e = index.NewSlimIndex(items, rd)
		if e != nil {
			longest := 0
			for _, k := range keys {
				if len(k) > longest {
					longest = len(k)
				}
			}
			if longest > maxKeyLen {
				si = nil // refusing keys beyond the documented length is fine; mis-indexing them is not
				return nil
			}
			return viol("build", "NewSlimIndex rejected sorted records: %v", e)
		}
		return nil
	})
	if err != nil {
		return err
	}
	if si == nil {
		s.class("refused_beyond_documented_key_length")
		s.done(c, false, "refused")
		return nil
	}
	get := si.Get
	api := "Get"
	if block > 1 {
		get = si.RangeGet
		api = "RangeGet"
	}
	s.class(fmt.Sprintf("api=%s", api))
	s.class("block=" + bucket(block))
	s.class("gen=" + c.Gen)
	qs := queries(keys, c.Win, c.Extra, false)
	err = guard("SlimIndex."+api, func() error {
		for _, k := range keys {
			v, f := get(k)
			if !f || v != payload[k] {
				return viol("index-miss", "%s(%s) = (%q,%v), want (%q,true); block size %d", api, q(k), v, f, payload[k], block)
			}
		}
		for _, x := range qs {
			v, f := get(x)
			want, present := payload[x]
			if f != present || v != want {
				return viol("index-inexact", "%s(%s) = (%q,%v), want (%q,%v); block size %d", api, q(x), v, f, want, present, block)
			}
		}
		return nil
	})
	if err != nil {
		return err
	}
	s.calls(len(keys) + len(qs))
	s.classN("reader_rejections", int64(rd.rejected))
	s.done(c, rd.rejected > 0, api)
	return nil
}

// ---------------------------------------------------------------------------
// C17: filter-mode index size.

func filterSize(keys []string) (int, *trie.Slim, error) {
	var n int
	var sl *trie.Slim
	err := guard("NewSlimTrie/Marshal in filter mode", func() error {
		st, e := trie.NewSlimTrie(nil, keys, nil)
		if e != nil {
			return viol("build", "NewSlimTrie rejected valid input: %v", e)
		}
		b, e := st.Marshal()
		if e != nil {
			return viol("marshal", "Marshal failed: %v", e)
		}
		n = len(b)
		sl = &trie.Slim{}
		if e := proto.Unmarshal(b[32:], sl); e != nil {
			sl = nil
		}
		return nil
	})
	return n, sl, err
}

func withPrefix(p string, keys []string) []string {
	out := make([]string, len(keys))
	for i, k := range keys {
		out[i] = p + k
	}
	return out
}

func checkC17(c *Case, s *Stats) error {
	if c.Gen == "concurrent-round" {
		for rep := 0; rep < 10; rep++ { // a replay: the outcome depends on the schedule
			if err := concurrentFilterSizes(c.Block, s); err != nil {
				return err
			}
		}
		return nil
	}
	keys := c.keys()
	n := len(keys)
	size, sl, err := filterSize(keys)
	if err != nil {
		return err
	}
	s.class("gen=" + c.Gen)
	switch {
	case n <= 10:
		s.class("n<=10")
	case n <= 100:
		s.class("n<=100")
	case n <= 1000:
		s.class("n<=1000")
	case n <= 10000:
		s.class("n<=10000")
	default:
		s.class("n>10000")
	}
	if size > 8*n+256 {
		return viol("size-bound", "%d keys serialize to %d bytes in filter mode: more than 8 bytes per key + 256", n, size)
	}
	if n > 0 {
		bpk := float64(size-32) / float64(n)
		switch {
		case bpk < 1:
			s.class("bytes_per_key<1")
		case bpk < 2:
			s.class("bytes_per_key<2")
		case bpk < 4:
			s.class("bytes_per_key<4")
		default:
			s.class("bytes_per_key>=4")
		}
	}
	steps := 0
	rankEntries := 0
	if sl != nil && sl.InnerPrefixes != nil {
		steps = int(sl.InnerPrefixes.EltCnt)
		if sl.InnerPrefixes.PresenceBM != nil {
			rankEntries = len(sl.InnerPrefixes.PresenceBM.RankIndex)
		}
	}
	if c.Scrib == 1 {
		// A caller that built a Complete index earlier and re-uses its option
		// variables: filter mode spelled with explicit false flags must give the
		// same index as the defaults, whatever was built before with those variables.
		var hsize int
		err := guard("filter-mode build after a Complete build sharing option variables", func() error {
			off1, off2 := trie.Bool(false), trie.Bool(false)
			full := trie.Opt{InnerPrefix: off1, LeafPrefix: off2, Complete: trie.Bool(true)}
			few := keys
			if len(few) > 50 {
				few = few[:50]
			}
			if _, e := trie.NewSlimTrie(nil, few, nil, full); e != nil {
				return viol("build", "NewSlimTrie rejected valid input: %v", e)
			}
			st, e := trie.NewSlimTrie(nil, keys, nil, trie.Opt{InnerPrefix: off1, LeafPrefix: off2})
			if e != nil {
				return viol("build", "NewSlimTrie rejected valid input: %v", e)
			}
			b, e := st.Marshal()
			if e != nil {
				return viol("marshal", "Marshal failed: %v", e)
			}
			hsize = len(b)
			return nil
		})
		if err != nil {
			return err
		}
		if hsize != size {
			return viol("size-bound", "filter mode spelled with explicit false flags, after a Complete build that shared the flag variables, gives %d bytes; default options give %d bytes (%d keys)", hsize, size, n)
		}
		s.class("shared_option_variables_history")
	}
	if c.Scrib == 2 {
		// the object that reports the size held (and serialised) a much larger,
		// key-length dependent index before: the size must be that of ITS CURRENT content
		var hsize int
		err := guard("size of a filter-mode index loaded into a used instance", func() error {
			big := withPrefix(strings.Repeat("p", 2000), []string{"a", "b", "c", "d"})
			other, e := trie.NewSlimTrie(nil, big, nil, trie.Opt{Complete: trie.Bool(true)})
			if e != nil {
				return viol("build", "NewSlimTrie rejected valid input: %v", e)
			}
			if _, e := other.Marshal(); e != nil {
				return viol("marshal", "Marshal failed: %v", e)
			}
			_ = proto.Size(other)
			st, e := trie.NewSlimTrie(nil, keys, nil)
			if e != nil {
				return viol("build", "NewSlimTrie rejected valid input: %v", e)
			}
			b, e := st.Marshal()
			if e != nil {
				return viol("marshal", "Marshal failed: %v", e)
			}
			if e := other.Unmarshal(b); e != nil {
				return viol("unmarshal", "Unmarshal of own bytes failed: %v", e)
			}
			b2, e := other.Marshal()
			if e != nil {
				return viol("marshal", "Marshal failed: %v", e)
			}
			hsize = len(b2)
			return nil
		})
		if err != nil {
			return err
		}
		if hsize != size {
			return viol("size-bound", "a %d-key filter-mode index loaded into an instance that held a larger index serialises to %d bytes; the same index serialises to %d bytes from a fresh object", n, hsize, size)
		}
		s.class("reload_into_used_instance_history")
	}
	if c.Scrib == 3 {
		// an earlier build by the same program was REJECTED late: the next build must not notice
		rejected, err := lateRejectedBuild()
		if err != nil {
			return err
		}
		hsize, _, err := filterSize(keys)
		if err != nil {
			return err
		}
		if hsize != size {
			return viol("size-bound", "a %d-key filter-mode index serialises to %d bytes when built right after a rejected build, and to %d bytes otherwise", n, hsize, size)
		}
		if rejected {
			s.class("build_after_late_rejected_build_history")
		}
	}
	maxP := 0
	if len(c.Prefix) >= 2 && n > 0 {
		p1, p2 := string(c.Prefix[0]), string(c.Prefix[1])
		s1, _, err := filterSize(withPrefix(p1, keys))
		if err != nil {
			return err
		}
		s2, _, err := filterSize(withPrefix(p2, keys))
		if err != nil {
			return err
		}
		d12 := s1 - s2
		if d12 < 0 {
			d12 = -d12
		}
		if d12 > 8 {
			return viol("size-depends-on-key-length", "prepending a %d-byte prefix gives %d bytes, a %d-byte prefix gives %d bytes (%d keys)", len(p1), s1, len(p2), s2, n)
		}
		d := s1 - size
		if d < 0 {
			d = -d
		}
		tol := 24 + rankEntries
		if d > tol {
			return viol("size-depends-on-key-length", "prepending a %d-byte prefix changes the size from %d to %d bytes (%d keys; tolerance %d)", len(p1), size, s1, n, tol)
		}
		if len(p1) > maxP {
			maxP = len(p1)
		}
		if len(p2) > maxP {
			maxP = len(p2)
		}
		s.class("prefix_pair_checked")
	}
	s.calls(3)
	s.done(c, (n >= 100 && steps >= n/4) || maxP >= 1024, c.Gen)
	return nil
}

// sortedCopy is a helper for generators.
func sortedCopy(keys []string) []string {
	out := append([]string{}, keys...)
	sort.Strings(out)
	return out
}
