package props

import (
	"crypto/sha1"
	"encoding/json"
	"fmt"
	"os"
	"path/filepath"
	"runtime"
	"sort"
	"strconv"
	"strings"
	"sync"
	"testing"
	"time"

	"github.com/golang/protobuf/proto"
	"github.com/openacid/slim/trie"
	"pgregory.net/rapid"
)

// ---------------------------------------------------------------------------
// Environment

func tier() string {
	if t := os.Getenv("VERIF_TIER"); t != "" {
		return t
	}
	return "quick"
}

func thorough() bool { return tier() == "thorough" }

func envInt(name string, def int) int {
	if v := os.Getenv(name); v != "" {
		if n, err := strconv.Atoi(v); err == nil {
			return n
		}
	}
	return def
}

// ---------------------------------------------------------------------------
// Stats: what a run covered. Written as JSON for the driver to merge.

const maxDistinct = 400000

type Stats struct {
	mu sync.Mutex

	Property    string            `json:"property"`
	Evaluations int               `json:"evaluations"`
	Calls       int64             `json:"api_calls"`
	NonTrivial  []uint64          `json:"nontrivial_hashes"`
	NTCapped    bool              `json:"nontrivial_capped"`
	Classes     map[string]int64  `json:"classes"`
	Samples     []json.RawMessage `json:"samples"`
	Excluded    int               `json:"excluded_known"`
	Violations  []string          `json:"violations"`
	Notes       map[string]string `json:"notes,omitempty"`
	Exhaustive  map[string]int64  `json:"exhaustive_subspaces,omitempty"`

	nt      map[uint64]struct{}
	sampled map[string]int
}

func newStats(prop string) *Stats {
	return &Stats{Property: prop, Classes: map[string]int64{}, nt: map[uint64]struct{}{}, sampled: map[string]int{},
		Notes: map[string]string{}, Exhaustive: map[string]int64{}}
}

func (s *Stats) class(name string) {
	s.mu.Lock()
	s.Classes[name]++
	s.mu.Unlock()
}

func (s *Stats) classN(name string, n int64) {
	s.mu.Lock()
	s.Classes[name] += n
	s.mu.Unlock()
}

func (s *Stats) calls(n int) {
	s.mu.Lock()
	s.Calls += int64(n)
	s.mu.Unlock()
}

// done records one completed evaluation. nontrivial per the property's rule;
// sampleKey groups samples so that the evidence shows different kinds of cases.
func (s *Stats) done(c *Case, nontrivial bool, sampleKey string) {
	s.mu.Lock()
	defer s.mu.Unlock()
	s.Evaluations++
	if !nontrivial {
		return
	}
	h := c.hash()
	if len(s.nt) < maxDistinct {
		s.nt[h] = struct{}{}
	} else {
		s.NTCapped = true
	}
	if len(s.Samples) < 6 && s.sampled[sampleKey] < 2 {
		s.sampled[sampleKey]++
		s.Samples = append(s.Samples, c.sample())
	}
}

// doneHash is for enumerated cases without a Case object.
func (s *Stats) doneHash(h uint64, nontrivial bool) {
	s.mu.Lock()
	defer s.mu.Unlock()
	s.Evaluations++
	if nontrivial {
		if len(s.nt) < maxDistinct {
			s.nt[h] = struct{}{}
		} else {
			s.NTCapped = true
		}
	}
}

func (s *Stats) addSample(v interface{}) {
	s.mu.Lock()
	defer s.mu.Unlock()
	if len(s.Samples) < 8 {
		b, _ := json.Marshal(v)
		s.Samples = append(s.Samples, b)
	}
}

func (s *Stats) write() {
	path := os.Getenv("VERIF_STATS")
	if path == "" {
		return
	}
	s.mu.Lock()
	defer s.mu.Unlock()
	s.NonTrivial = s.NonTrivial[:0]
	for h := range s.nt {
		s.NonTrivial = append(s.NonTrivial, h)
	}
	sort.Slice(s.NonTrivial, func(i, j int) bool { return s.NonTrivial[i] < s.NonTrivial[j] })
	if runtime.GOARCH != "amd64" {
		s.Classes["goarch="+runtime.GOARCH] = int64(s.Evaluations)
	}
	b, _ := json.Marshal(s)
	tmp := path + ".tmp"
	if err := os.WriteFile(tmp, b, 0o644); err == nil {
		os.Rename(tmp, path)
	}
}

// ---------------------------------------------------------------------------
// Violation reporting and replay files

func replayDir(prop string) string {
	if d := os.Getenv("VERIF_REPLAY_DIR"); d != "" {
		return d
	}
	return filepath.Join("/verif/replays", prop)
}

func writeReplay(prop string, c *Case) string {
	if runtime.GOARCH != "amd64" {
		c.Arch = runtime.GOARCH // information: the violation was seen in a build for this platform
	}
	b, _ := json.MarshalIndent(c, "", " ")
	sum := sha1.Sum(b)
	dir := replayDir(prop)
	os.MkdirAll(dir, 0o755)
	path := filepath.Join(dir, fmt.Sprintf("%x.json", sum[:8]))
	os.WriteFile(path, b, 0o644)
	return path
}

// runner wires a property into rapid.
type runner struct {
	prop  string
	stats *Stats
	check func(c *Case, s *Stats) error

	mu       sync.Mutex
	lastFail *Case
	lastErr  error
}

// safeCheck runs a check function. Most library calls are made under guard(), which
// names the call; a panic that escapes from library code called elsewhere (building
// an auxiliary object, say) is a violation all the same: no listed API may panic on
// valid input. A panic without any library frame on its stack is a harness bug and
// is passed on (the driver reports it as inconclusive, never as a violation).
func safeCheck(check func(c *Case, s *Stats) error, c *Case, s *Stats) error {
	type outcome struct {
		err          error
		harnessPanic interface{}
	}
	done := make(chan outcome, 1)
	go func() {
		var o outcome
		defer func() {
			if r := recover(); r != nil {
				buf := make([]byte, 32768)
				n := runtime.Stack(buf, false)
				where := ""
				for _, l := range strings.Split(string(buf[:n]), "\n") {
					if strings.Contains(l, "openacid/slim/") && !strings.Contains(l, "verifharness") ||
						strings.Contains(l, "/trie/slimtrie") || strings.Contains(l, "/array/") && strings.Contains(l, ".go:") && !strings.Contains(l, "arrayprops") ||
						strings.Contains(l, "/encode/") && strings.Contains(l, ".go:") || strings.Contains(l, "/index/index.go") {
						where += " < " + strings.TrimSpace(l)
						if len(where) > 600 {
							break
						}
					}
				}
				if where == "" {
					o.harnessPanic = fmt.Sprintf("%v\n%s", r, buf[:n])
				} else {
					o.err = viol("panic", "library code panicked: %v @%s", r, where)
				}
			}
			done <- o
		}()
		o.err = check(c, s)
	}()
	// Case-level watchdog: a generated case normally takes milliseconds (seconds for
	// the largest ones). A call of the API under test that does not return is a
	// violation of every listed property (each speaks of what a call returns); the
	// narrower watchdogs around single calls (C04, C08, C10, C18) name the call.
	// The limit is 4 x 150 s: two to three orders of magnitude above the slowest
	// legitimate case of the thorough tier on a loaded machine.
	limit := 4 * hangLimit()
	if c.Prop == "C11" || c.Prop == "C19" || thorough() {
		// The race-detector build runs an order of magnitude slower and a C11 case
		// starts dozens of goroutines on tries of up to 10^5 keys: on a busy machine
		// a legitimate case took more than five minutes (thorough tier, session 2 —
		// a false alarm of this watchdog). No case-level limit there; a hang ends
		// with the test deadline as "inconclusive".
		// The same happened to C19 in the thorough tier: String() is quadratic in the
		// node count and a 32 768-key tree legitimately takes minutes. The case-level
		// limit is therefore confined to the quick tier of the other properties, whose
		// cases are small; everywhere else only the narrow per-call watchdogs apply.
		limit = 1000 * time.Hour
	}
	tm := time.NewTimer(limit)
	defer tm.Stop()
	select {
	case o := <-done:
		if o.harnessPanic != nil {
			panic(o.harnessPanic)
		}
		return o.err
	case <-tm.C:
		path := writeReplay(c.Prop, c)
		fmt.Printf("VIOLATION property=%s replay=%s\n", c.Prop, path)
		fmt.Printf("DETAIL property=%s non-termination: the case did not finish within %v (%d keys, generator %s); the calls it makes normally return within milliseconds\n", c.Prop, limit, len(c.Keys), c.Gen)
		if s != nil {
			s.write()
		}
		os.Exit(1)
	}
	return nil
}

// eval runs the property on one case, records a failure and reports it to rapid.
func (r *runner) eval(t *rapid.T, c *Case) {
	c.Prop = r.prop
	err := safeCheck(r.check, c, r.stats)
	if err != nil {
		if _, ok := err.(*violation); !ok {
			// not a statement about the property: a generator or harness problem.
			// No VIOLATION line is printed; the driver reports it as inconclusive (exit 2).
			panic(fmt.Sprintf("HARNESS ERROR (not a violation): %v", err))
		}
		r.mu.Lock()
		r.lastFail, r.lastErr = c, err
		r.mu.Unlock()
		kind := "violation"
		if v, ok := err.(*violation); ok {
			kind = v.kind
		}
		t.Logf("%s: %v", r.prop, err)
		// The message is deliberately free of case data so that rapid's
		// shrinker sees "the same failure" while it simplifies the case.
		_ = kind
		t.Fatalf("%s violated", r.prop)
	}
}

// finish is deferred by the test function: emits the VIOLATION line and stats.
func (r *runner) finish(t *testing.T) {
	r.mu.Lock()
	c, err := r.lastFail, r.lastErr
	r.mu.Unlock()
	if c != nil {
		path := writeReplay(r.prop, c)
		msg := fmt.Sprintf("VIOLATION property=%s replay=%s", r.prop, path)
		fmt.Println(msg)
		fmt.Printf("DETAIL property=%s %s\n", r.prop, oneLine(err.Error()))
		r.stats.mu.Lock()
		r.stats.Violations = append(r.stats.Violations, msg+" :: "+oneLine(err.Error()))
		r.stats.mu.Unlock()
	}
	r.stats.write()
}

func oneLine(s string) string {
	s = strings.ReplaceAll(s, "\n", " | ")
	if len(s) > 1500 {
		s = s[:1500] + "..."
	}
	return s
}

// runProp is the common body of TestCxx: rapid search driven by gen.
func runProp(t *testing.T, prop string, check func(c *Case, s *Stats) error, gen func(t *rapid.T) *Case) {
	r := &runner{prop: prop, stats: newStats(prop), check: check}
	defer r.finish(t)
	rapid.Check(t, func(rt *rapid.T) {
		c := gen(rt)
		r.eval(rt, c)
	})
}

// runReplay re-runs check on saved cases without any library (plain regression form).
func runReplay(t *testing.T, prop string, check func(c *Case, s *Stats) error) {
	st := newStats(prop)
	defer st.write()
	files := strings.Fields(os.Getenv("VERIF_REPLAY_FILES"))
	for _, f := range files {
		b, err := os.ReadFile(f)
		if err != nil {
			t.Fatalf("cannot read replay %s: %v", f, err)
		}
		c := &Case{}
		if err := json.Unmarshal(b, c); err != nil {
			t.Fatalf("cannot parse replay %s: %v", f, err)
		}
		if c.Prop == "" {
			c.Prop = prop
		}
		if err := safeCheck(check, c, st); err != nil {
			if _, ok := err.(*violation); !ok {
				t.Fatalf("HARNESS ERROR (not a violation) on replay %s: %v", f, err)
			}
			msg := fmt.Sprintf("VIOLATION property=%s replay=%s", prop, f)
			fmt.Println(msg)
			fmt.Printf("DETAIL property=%s %s\n", prop, oneLine(err.Error()))
			st.Violations = append(st.Violations, msg+" :: "+oneLine(err.Error()))
			t.Errorf("%s violated by replay %s: %v", prop, f, err)
		}
		st.class("replayed")
	}
}

// ---------------------------------------------------------------------------
// Shape classification (coverage histogram only, never an oracle).

type shape struct {
	Big        int32
	ShortSize  int32
	ShortCnt   int
	Inners     int
	Nodes      int
	Prefixes   int32
	LeafPrefix int
	HalfPrefix bool // a stored inner prefix that ends on a half byte
	Bytes      int
}

func shapeOf(st *trie.SlimTrie) (sh shape, ok bool) {
	defer func() {
		if recover() != nil {
			ok = false
		}
	}()
	b, err := st.Marshal()
	if err != nil || len(b) < 32 {
		return sh, false
	}
	sh.Bytes = len(b)
	s := &trie.Slim{}
	if err := proto.Unmarshal(b[32:], s); err != nil {
		return sh, false
	}
	sh.Big = s.BigInnerCnt
	sh.ShortSize = s.ShortSize
	if s.ShortBM != nil {
		for _, w := range s.ShortBM.Words {
			sh.ShortCnt += popcnt(w)
		}
	}
	if s.NodeTypeBM != nil {
		for _, w := range s.NodeTypeBM.Words {
			sh.Inners += popcnt(w)
		}
	}
	if s.InnerPrefixes != nil {
		sh.Prefixes = s.InnerPrefixes.EltCnt
	}
	if s.LeafPrefixes != nil && s.LeafPrefixes.PresenceBM != nil {
		for _, w := range s.LeafPrefixes.PresenceBM.Words {
			sh.LeafPrefix += popcnt(w)
		}
	}
	return sh, true
}

func popcnt(w uint64) int {
	n := 0
	for w != 0 {
		w &= w - 1
		n++
	}
	return n
}

// classify records the shared histogram classes of a trie case.
func classify(s *Stats, c *Case, m *Model, sh shape, shOK bool) {
	s.class("mode=" + c.Opt.mode())
	if c.Opt.dedup() {
		s.class("dedup=on")
	} else {
		s.class("dedup=off")
	}
	s.class("enc=" + c.Enc)
	if !c.HasVals {
		s.class("values=nil")
	} else if c.spec().width == 0 {
		s.class("values=varlen")
	} else {
		s.class("values=fixed")
	}
	ld := c.Load
	if ld == "" {
		ld = "fresh"
	}
	s.class("load=" + ld)
	if c.Over {
		s.class("load_into_used_instance")
	}
	s.class("gen=" + c.Gen)
	if c.HasVals {
		s.class("valmode=" + c.VMode)
	}
	n := len(c.Keys)
	switch {
	case n == 0:
		s.class("n=0")
	case n == 1:
		s.class("n=1")
	case n <= 10:
		s.class("n=2..10")
	case n <= 100:
		s.class("n=11..100")
	case n <= 1000:
		s.class("n=101..1000")
	case n <= 10000:
		s.class("n=1001..10000")
	default:
		s.class("n>10000")
	}
	if m != nil && m.Dropped > 0 {
		s.class("dedup_dropped>0")
	}
	maxLen, hi, emptyKey, prefixKey := 0, false, false, false
	for i, k := range c.Keys {
		if len(k) > maxLen {
			maxLen = len(k)
		}
		if len(k) == 0 {
			emptyKey = true
		}
		if i > 0 && strings.HasPrefix(string(k), string(c.Keys[i-1])) {
			prefixKey = true
		}
		if !hi {
			for j := 0; j < len(k); j++ {
				if k[j] >= 0x80 {
					hi = true
					break
				}
			}
		}
	}
	if emptyKey {
		s.class("has_empty_key")
	}
	if prefixKey {
		s.class("has_prefix_key")
	}
	if hi {
		s.class("bytes>=0x80")
	}
	switch {
	case maxLen <= 8:
		s.class("max_key_len<=8")
	case maxLen <= 256:
		s.class("max_key_len<=256")
	case maxLen <= 4096:
		s.class("max_key_len<=4096")
	default:
		s.class("max_key_len>4096")
	}
	if shOK {
		if sh.Big > 0 {
			s.class("big_nodes>0")
		}
		if sh.Big > 1 {
			s.class("big_nodes>1")
		}
		if sh.ShortCnt > 0 {
			s.class(fmt.Sprintf("short_size=%d", sh.ShortSize))
		} else {
			s.class("short_nodes=0")
		}
		if sh.Prefixes > 0 {
			s.class("steps>0")
		}
		if sh.LeafPrefix > 0 {
			s.class("leaf_prefixes>0")
		}
	}
}
