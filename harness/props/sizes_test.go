package props

import (
	"fmt"
	"hash/fnv"
	"strings"
	"testing"
)

// Size-sequence sweep: the variable-length arrays of a trie (leaf values, leaf
// tails, inner prefixes) are laid out from the SEQUENCE of element sizes. This
// enumerates every size tuple over a small range:
//
//	(a) String16 values of lengths {0..3}^n, n <= 6, on a fixed key set;
//	(b) leaf tails of lengths {0..3}^n, n <= 6 (keys = one distinct byte + tail);
//	(c) inner prefixes of lengths {0..2}^n, n <= 5 (pairs of keys below a distinct first byte).
//
// Each shape is checked with the oracles of C01, C02, C09 and C10 (and C03/C04 in Complete mode).
func sizeSweepCases(shard, nshards int, visit func(c *Case, what string)) {
	n := 0
	emit := func(c *Case, what string) {
		n++
		if n%nshards == shard {
			visit(c, what)
		}
	}
	maxN := 6
	if !thorough() {
		maxN = 5
	}
	opts := []OptSpec{{1, 0, 0, 0}, {2, 0, 0, 2}, {1, 0, 2, 0}, {1, 2, 0, 0}}
	// (a) value sizes
	for k := 1; k <= maxN; k++ {
		keys := make([]string, k)
		for i := range keys {
			keys[i] = string([]byte{byte('a' + i), byte('a' + i)})
		}
		total := 1
		for i := 0; i < k; i++ {
			total *= 4
		}
		for code := 0; code < total; code++ {
			sizes := make([]int, k)
			x := code
			for i := range sizes {
				sizes[i] = x % 4
				x /= 4
			}
			for oi, o := range opts[:2] {
				c := &Case{Gen: "sizes:values", Keys: hexes(keys), Enc: "String16", HasVals: true, Opt: o, Load: []string{"", "reload"}[(code+oi)%2]}
				for i, sz := range sizes {
					c.Vals = append(c.Vals, Hex(strings.Repeat(string([]byte{byte('A' + i)}), sz)))
				}
				emit(c, fmt.Sprintf("value sizes %v opt %d", sizes, oi))
			}
		}
	}
	// (b) leaf tail sizes
	for k := 1; k <= maxN; k++ {
		total := 1
		for i := 0; i < k; i++ {
			total *= 4
		}
		for code := 0; code < total; code++ {
			keys := make([]string, k)
			x := code
			for i := range keys {
				keys[i] = string([]byte{byte(0x10 * (i + 1))}) + strings.Repeat("t", x%4)
				x /= 4
			}
			for oi, o := range opts[1:3] {
				c := &Case{Gen: "sizes:leaf-tails", Keys: hexes(keys), Enc: "I16", HasVals: true, Opt: o, Load: []string{"", "proto"}[(code+oi)%2]}
				for i := range keys {
					c.Vals = append(c.Vals, Hex(leBytes(uint64(i+1), 2)))
				}
				emit(c, fmt.Sprintf("leaf tails of key set %d opt %d", code, oi))
			}
		}
	}
	// (c) inner prefix sizes
	maxP := maxN - 1
	for k := 1; k <= maxP; k++ {
		total := 1
		for i := 0; i < k; i++ {
			total *= 3
		}
		for code := 0; code < total; code++ {
			var keys []string
			x := code
			for i := 0; i < k; i++ {
				p := string([]byte{byte(0x10 * (i + 1))}) + strings.Repeat("p", x%3)
				x /= 3
				keys = append(keys, p+"\x10", p+"\x20")
			}
			for oi, o := range []OptSpec{opts[1], opts[3], opts[0]} {
				c := &Case{Gen: "sizes:inner-prefixes", Keys: hexes(keys), Enc: "I32", HasVals: true, Opt: o, Load: []string{"", "reload"}[(code+oi)%2]}
				for i := range keys {
					c.Vals = append(c.Vals, Hex(leBytes(uint64(i+1), 4)))
				}
				emit(c, fmt.Sprintf("inner prefixes of key set %d opt %d", code, oi))
			}
		}
	}
}

func runSizeSweep(t *testing.T, prop string, checks []func(*Case, *Stats) error) {
	st := newStats(prop)
	defer st.write()
	shard, nshards := envInt("VERIF_SHARD", 0), envInt("VERIF_NSHARDS", 1)
	sizeSweepCases(shard, nshards, func(c *Case, what string) {
		c.Prop = prop
		for _, ck := range checks {
			sub := newStats(prop)
			if err := ck(c, sub); err != nil {
				if _, ok := err.(*violation); !ok {
					t.Fatalf("HARNESS ERROR: %v", err)
				}
				path := writeReplay(prop, c)
				fmt.Printf("VIOLATION property=%s replay=%s\n", prop, path)
				fmt.Printf("DETAIL property=%s size sweep (%s): %s\n", prop, what, oneLine(err.Error()))
				t.Fatalf("%s violated (%s): %v", prop, what, err)
			}
			st.calls(int(sub.Calls))
		}
		h := fnv.New64a()
		fmt.Fprint(h, what, c.Gen)
		st.doneHash(h.Sum64(), len(c.Keys) >= 2)
		st.class(c.Gen)
		if st.Evaluations%3000 == 1 {
			st.addSample(c)
		}
	})
	st.Exhaustive["size-sequence sweep (value sizes, leaf tail sizes, inner prefix sizes)"] = int64(st.Evaluations)
}

func completeOnlyCheck(f func(*Case, *Stats) error) func(*Case, *Stats) error {
	return func(c *Case, s *Stats) error {
		if !c.Opt.complete() {
			return nil
		}
		return f(c, s)
	}
}

func TestC01Sizes(t *testing.T) {
	runSizeSweep(t, "C01", []func(*Case, *Stats) error{checkC01, checkC02, checkC09})
}
func TestC10Sizes(t *testing.T) { runSizeSweep(t, "C10", []func(*Case, *Stats) error{checkC10}) }
func TestC04Sizes(t *testing.T) {
	runSizeSweep(t, "C04", []func(*Case, *Stats) error{completeOnlyCheck(checkC04), completeOnlyCheck(checkC03)})
}
func TestC05Sizes(t *testing.T) {
	runSizeSweep(t, "C05", []func(*Case, *Stats) error{func(c *Case, s *Stats) error {
		cc := *c
		if cc.Load == "" {
			cc.Load = "reload"
		}
		return checkC05(&cc, s)
	}})
}
