package props

import (
	"fmt"
	"math/bits"
	"os"
	"sort"
	"strings"
	"sync"

	"github.com/openacid/testkeys"
	"pgregory.net/rapid"
)

// All randomness comes from rapid draws. Large structures are expanded
// deterministically from drawn parameters with splitmix64 seeded by a drawn
// value, so a Case is a pure function of the drawn data.

type sm64 struct{ s uint64 }

func (r *sm64) next() uint64 {
	r.s += 0x9e3779b97f4a7c15
	z := r.s
	z = (z ^ (z >> 30)) * 0xbf58476d1ce4e5b9
	z = (z ^ (z >> 27)) * 0x94d049bb133111eb
	return z ^ (z >> 31)
}

func (r *sm64) intn(n int) int {
	if n <= 0 {
		return 0
	}
	return int(r.next() % uint64(n))
}

// pickU draws a number in [0,n) with a (nearly) uniform distribution. rapid's
// integer generators favour small values, which is good for sizes but skews
// categorical choices such as the generator family.
func pickU(t *rapid.T, label string, n int) int {
	if n <= 1 {
		return 0
	}
	r := sm64{rapid.Uint64().Draw(t, label)}
	return int(r.next() % uint64(n))
}

func sortedSet(set map[string]struct{}) []string {
	keys := make([]string, 0, len(set))
	for k := range set {
		keys = append(keys, k)
	}
	sort.Strings(keys)
	return keys
}

func uniqSorted(keys []string) []string {
	sort.Strings(keys)
	out := keys[:0]
	for i, k := range keys {
		if i == 0 || k != keys[i-1] {
			out = append(out, k)
		}
	}
	return out
}

var fullAlpha = func() []byte {
	b := make([]byte, 256)
	for i := range b {
		b[i] = byte(i)
	}
	return b
}()

var alphabets = [][]byte{
	{0x00, 0x01, 0x10, 0xff},
	{0x00, 0x0f, 0xf0, 0xff, 0x80, 0x7f},
	{'a', 'b'},
	{0x00},
	{0, 1, 2, 3, 4, 5, 6, 7, 8, 9, 10, 11, 12, 13, 14, 15, 16, 32, 48, 64, 80, 96, 112, 128, 144, 160, 176, 192, 208, 224, 240, 255},
	{0x7f, 0x80},
	{0xfe, 0xff},
	fullAlpha,
}

// sizeCap is the per-tier bound on the number of keys.
type sizeCap struct {
	small int // usual maximum
	big   int // occasional maximum
	huge  int // rare maximum (thorough only)
	// slowAPI: the property calls an API whose cost is quadratic in the node count
	slowAPI bool
}

func caps() sizeCap {
	if thorough() {
		return sizeCap{small: 400, big: 20000, huge: 100000}
	}
	return sizeCap{small: 300, big: 5000, huge: 5000}
}

// drawCap picks the key-count cap of one case: mostly small.
func drawCap(t *rapid.T, sc sizeCap) int {
	r := pickU(t, "capclass", 1000)
	switch {
	case r < 930:
		return sc.small
	case r < 995:
		return sc.big
	default:
		return sc.huge
	}
}

// ---------------------------------------------------------------------------
// K1 small alphabet

func genK1(t *rapid.T, maxN int) []string {
	alpha := alphabets[pickU(t, "alpha", len(alphabets))]
	if maxN > 60 {
		maxN = 60
	}
	maxLen := pickU(t, "maxlen", 7)
	n := pickU(t, "k1n", maxN+1)
	if rapid.Bool().Draw(t, "k1small") {
		n = rapid.IntRange(0, maxN).Draw(t, "k1nsmall")
	}
	raw := rapid.SliceOfN(rapid.SliceOfN(rapid.SampledFrom(alpha), 0, maxLen), n, n).Draw(t, "k1")
	set := map[string]struct{}{}
	for _, b := range raw {
		set[string(b)] = struct{}{}
	}
	return sortedSet(set)
}

// ---------------------------------------------------------------------------
// K2 palette nibble tree

func nibblesToKeys(nibs [][]byte, padNib byte) []string {
	set := map[string]struct{}{}
	for _, nb := range nibs {
		if len(nb)%2 == 1 {
			nb = append(append([]byte{}, nb...), padNib)
		}
		b := make([]byte, len(nb)/2)
		for i := range b {
			b[i] = nb[2*i]<<4 | nb[2*i+1]
		}
		set[string(b)] = struct{}{}
	}
	return sortedSet(set)
}

func genK2(t *rapid.T, maxN int) []string {
	np := rapid.IntRange(1, 12).Draw(t, "np")
	pal := make([][]int, np)
	for i := range pal {
		k := rapid.IntRange(1, 6).Draw(t, "k")
		m := map[int]bool{}
		for j := 0; j < k; j++ {
			m[rapid.IntRange(-1, 15).Draw(t, "lab")] = true
		}
		for l := range m {
			pal[i] = append(pal[i], l)
		}
		sort.Ints(pal[i])
	}
	depth := rapid.IntRange(1, 14).Draw(t, "depth")
	stepP := rapid.IntRange(0, 60).Draw(t, "stepP")
	seed := rapid.Uint64().Draw(t, "seed")
	longStep := rapid.IntRange(0, 19).Draw(t, "longstep") == 0
	padNib := byte(rapid.IntRange(0, 15).Draw(t, "pad"))
	rng := &sm64{seed}

	var out [][]byte
	var rec func(path []byte, d int)
	rec = func(path []byte, d int) {
		if len(out) >= maxN {
			return
		}
		if d == 0 {
			out = append(out, append([]byte{}, path...))
			return
		}
		if rng.intn(100) < stepP {
			sl := 1 + rng.intn(5)
			if longStep && rng.intn(8) == 0 {
				sl = 250 + rng.intn(20)
			}
			for i := 0; i < sl; i++ {
				path = append(path, byte(rng.intn(16)))
			}
		}
		ls := pal[rng.intn(len(pal))]
		for _, l := range ls {
			if l < 0 {
				if len(path)%2 == 0 {
					out = append(out, append([]byte{}, path...))
				}
				continue
			}
			rec(append(append([]byte{}, path...), byte(l)), d-1)
		}
	}
	rec(nil, depth)
	return nibblesToKeys(out, padNib)
}

// genShortTarget builds a regular nibble tree whose inner nodes use
// D = C(s,2) distinct two-label bitmaps, which steers ShortSize towards s.
func genShortTarget(t *rapid.T, s int, maxN int) []string {
	need := []int{0, 0, 16, 256, 1024, 2048, 4096, 8192, 16384, 32768, 65536}[s]
	if need > maxN {
		need = maxN
	}
	pool := rapid.Permutation([]int{0, 1, 2, 3, 4, 5, 6, 7, 8, 9, 10, 11, 12, 13, 14, 15}).Draw(t, "pool")[:s+1]
	if s+1 > 16 {
		pool = pool[:16]
	}
	var pairs [][2]byte
	for i := 0; i < len(pool) && len(pairs) < s*(s-1)/2+1; i++ {
		for j := i + 1; j < len(pool) && len(pairs) < s*(s-1)/2+1; j++ {
			a, b := byte(pool[i]), byte(pool[j])
			if a > b {
				a, b = b, a
			}
			pairs = append(pairs, [2]byte{a, b})
		}
	}
	mult := rapid.IntRange(1, 7).Draw(t, "mult")*2 + 1
	off := rapid.IntRange(0, 63).Draw(t, "off")
	depth := 1
	for (1 << uint(depth)) < need {
		depth++
	}
	var out [][]byte
	node := 0
	var rec func(path []byte, d int)
	rec = func(path []byte, d int) {
		if d == 0 {
			out = append(out, append([]byte{}, path...))
			return
		}
		p := pairs[(node*mult+off)%len(pairs)]
		node++
		rec(append(append([]byte{}, path...), p[0]), d-1)
		rec(append(append([]byte{}, path...), p[1]), d-1)
	}
	rec(nil, depth)
	return nibblesToKeys(out, byte(rapid.IntRange(0, 15).Draw(t, "pad")))
}

// ---------------------------------------------------------------------------
// K3 byte fan-out (257-bit nodes)

func genK3(t *rapid.T, maxN int) []string {
	fan := rapid.OneOf(rapid.SampledFrom([]int{10, 11, 12, 16, 17, 255, 256}), rapid.IntRange(11, 256)).Draw(t, "fan")
	second := rapid.IntRange(0, 3).Draw(t, "second") // how many first-level children get a wide second level
	fan2 := rapid.SampledFrom([]int{2, 10, 11, 12, 40, 256}).Draw(t, "fan2")
	tailMax := rapid.IntRange(0, 3).Draw(t, "tailmax")
	seed := rapid.Uint64().Draw(t, "seed")
	pre := rapid.SliceOfN(rapid.Byte(), 0, 2).Draw(t, "pre")
	// multi-byte edges between the first-level byte and the wide second level (a
	// wide node that is not the root and carries a prefix), optionally a wide
	// third level; "leafOnly": the other first-level children are single keys, so
	// that every inner node near the top is wide
	// "selfKey": the common prefix of a wide node is itself a key, so that the node
	// also uses its end-of-key label (with fan 256: all 257 labels of a big node)
	selfKey := rapid.Bool().Draw(t, "selfkey")
	edgeMax := rapid.SampledFrom([]int{0, 0, 1, 2, 3, 8}).Draw(t, "edgemax")
	leafOnly := rapid.Bool().Draw(t, "leafonly")
	third := rapid.IntRange(0, 2).Draw(t, "third")
	if edgeMax > 0 && second == 0 {
		second = 1 + rapid.IntRange(0, 11).Draw(t, "second2")
	}
	rng := &sm64{seed}
	perm := append([]byte{}, fullAlpha...)
	for i := len(perm) - 1; i > 0; i-- {
		j := rng.intn(i + 1)
		perm[i], perm[j] = perm[j], perm[i]
	}
	if rapid.IntRange(0, 4).Draw(t, "block") == 0 {
		// the fan-out bytes are consecutive: 11..16 of them share one high nibble
		start := byte(rng.intn(256))
		if rapid.Bool().Draw(t, "alignedblock") {
			start &= 0xf0
		}
		for i := range perm {
			perm[i] = start + byte(i)
		}
		if fan > 16 && rapid.Bool().Draw(t, "within16") {
			fan = 11 + rng.intn(6)
		}
	}
	set := map[string]struct{}{}
	tail := func() string {
		l := rng.intn(tailMax + 1)
		b := make([]byte, l)
		for i := range b {
			b[i] = byte(rng.next())
		}
		return string(b)
	}
	if selfKey {
		set[string(pre)] = struct{}{}
		if maxN < fan+1 {
			maxN = fan + 1
		}
	}
	for i := 0; i < fan && len(set) < maxN; i++ {
		k := string(pre) + string([]byte{perm[i]})
		if i < second {
			if edgeMax > 0 {
				e := make([]byte, rng.intn(edgeMax+1))
				for x := range e {
					e[x] = byte(rng.next())
				}
				k += string(e)
			}
			if selfKey && rng.intn(2) == 0 {
				set[k] = struct{}{}
			}
			for j := 0; j < fan2 && len(set) < maxN; j++ {
				k2 := k + string([]byte{perm[(j*7+i)%256]})
				if j < third && edgeMax > 0 {
					// a wide third level behind another edge
					e := strings.Repeat(string([]byte{byte(rng.next())}), rng.intn(edgeMax+1))
					for x := 0; x < 12 && len(set) < maxN; x++ {
						set[k2+e+string([]byte{perm[(x*5+j)%256]})+tail()] = struct{}{}
					}
					continue
				}
				set[k2+tail()] = struct{}{}
			}
		} else {
			set[k+tail()] = struct{}{}
			if rng.intn(4) == 0 && !leafOnly {
				set[k+tail()] = struct{}{}
			}
		}
	}
	return sortedSet(set)
}

// genRandomBytes: n random keys of a fixed or variable length (many big nodes).
func genRandomBytes(t *rapid.T, maxN int) []string {
	n := rapid.IntRange(0, maxN).Draw(t, "n")
	klen := rapid.IntRange(1, 10).Draw(t, "klen")
	vari := rapid.Bool().Draw(t, "varlen")
	seed := rapid.Uint64().Draw(t, "seed")
	rng := &sm64{seed}
	set := map[string]struct{}{}
	for i := 0; i < n; i++ {
		l := klen
		if vari {
			l = rng.intn(klen + 1)
		}
		b := make([]byte, l)
		for j := range b {
			b[j] = byte(rng.next())
		}
		set[string(b)] = struct{}{}
	}
	return sortedSet(set)
}

// genKmix: medium-size structured tries that combine the node kinds: a wide byte
// fan-out at the top (257-bit nodes), regular nibble subtrees below (many equal
// bitmaps -> short nodes), optional steps. Together with long value runs this
// gives big nodes that keep only a few labels after de-duplication.
func genKmix(t *rapid.T, maxN int) []string {
	nf := rapid.IntRange(11, 48).Draw(t, "nfirst")
	lowFirst := rapid.IntRange(0, 6).Draw(t, "lowfirst") // how many first bytes come from 0x00..0x0f
	depth := rapid.IntRange(2, 6).Draw(t, "depth")
	npairs := rapid.IntRange(1, 12).Draw(t, "npairs")
	stepLen := rapid.IntRange(0, 3).Draw(t, "steplen")
	seed := rapid.Uint64().Draw(t, "seed")
	rng := &sm64{seed}
	var pairs [][2]byte
	for len(pairs) < npairs {
		a, b := byte(rng.intn(16)), byte(rng.intn(16))
		if a != b {
			if a > b {
				a, b = b, a
			}
			pairs = append(pairs, [2]byte{a, b})
		}
	}
	var firsts []byte
	used := map[byte]bool{}
	if rapid.Bool().Draw(t, "alias") && lowFirst >= 2 {
		// bytes 0x00..0x0f of a 257-bit node occupy the same bitmap positions as the
		// nibbles of a 17-bit node: let the low first bytes coincide with a nibble pair
		p := pairs[rng.intn(len(pairs))]
		firsts = append(firsts, p[0], p[1])
		used[p[0]], used[p[1]] = true, true
		lowFirst = 2
	}
	for len(firsts) < lowFirst {
		b := byte(rng.intn(16))
		if !used[b] {
			used[b] = true
			firsts = append(firsts, b)
		}
	}
	for len(firsts) < nf {
		b := byte(0x10 + rng.intn(0xf0))
		if !used[b] {
			used[b] = true
			firsts = append(firsts, b)
		}
	}
	var out [][]byte
	node := 0
	var rec func(path []byte, d int)
	rec = func(path []byte, d int) {
		if len(out) >= maxN {
			return
		}
		if d == 0 {
			out = append(out, append([]byte{}, path...))
			return
		}
		p := pairs[node%len(pairs)]
		node++
		rec(append(append([]byte{}, path...), p[0]), d-1)
		rec(append(append([]byte{}, path...), p[1]), d-1)
	}
	for _, f := range firsts {
		path := []byte{f >> 4, f & 0xf}
		for i := 0; i < 2*stepLen; i++ {
			path = append(path, byte(rng.intn(16)))
		}
		switch rng.intn(5) {
		case 0:
			out = append(out, append([]byte{}, path...)) // a single key below this first byte
		default:
			rec(path, depth)
		}
	}
	return nibblesToKeys(out, byte(rng.intn(16)))
}

// ---------------------------------------------------------------------------
// K4 long keys

var longLens = []int{1, 2, 7, 8, 31, 32, 33, 127, 128, 255, 256, 257, 1023, 4095, 4096, 8191, 8192, 16000, 16383}

const maxKeyLen = 16384 // documented key length limit

func genK4(t *rapid.T, maxN int) []string {
	plen := rapid.OneOf(rapid.SampledFrom(longLens), rapid.IntRange(0, 16383)).Draw(t, "plen")
	fill := rapid.SampledFrom([]byte{0x00, 0xff, 0x61, 0x80, 0x0f, 0xf0}).Draw(t, "fill")
	vary := rapid.Bool().Draw(t, "vary")
	seed := rapid.Uint64().Draw(t, "seed")
	rng := &sm64{seed}
	p := make([]byte, plen)
	for i := range p {
		p[i] = fill
		if vary {
			p[i] = byte(rng.next())
		}
	}
	tails := genK1(t, 12)
	if rapid.IntRange(0, 3).Draw(t, "fantails") == 0 {
		// the run is followed by a wide fan-out (a 257-bit node when it comes early enough)
		nf := rapid.IntRange(11, 40).Draw(t, "nfan")
		tails = tails[:0]
		for i := 0; i < nf; i++ {
			tails = append(tails, string([]byte{byte(5 + 6*i)})+"x")
		}
	}
	set := map[string]struct{}{}
	for _, tl := range tails {
		k := string(p) + tl
		if len(k) > maxKeyLen {
			k = k[:maxKeyLen]
		}
		set[k] = struct{}{}
	}
	// a sibling branch that splits off inside the long run, at a drawn position
	if plen > 0 && rapid.Bool().Draw(t, "split") {
		pos := rapid.IntRange(0, plen-1).Draw(t, "splitpos")
		q := append([]byte{}, p[:pos+1]...)
		q[pos] ^= byte(1) << uint(rapid.IntRange(0, 7).Draw(t, "splitbit"))
		set[string(q)] = struct{}{}
		if rapid.Bool().Draw(t, "splittail") {
			set[string(q)+"zz"] = struct{}{}
		}
	}
	if rapid.IntRange(0, 7).Draw(t, "maxkey") == 0 {
		// one key of exactly the documented maximum length
		b := make([]byte, maxKeyLen)
		copy(b, p)
		for i := plen; i < len(b); i++ {
			b[i] = byte(rng.next())
		}
		set[string(b)] = struct{}{}
	}
	return sortedSet(set)
}

// ---------------------------------------------------------------------------
// K5 neighbourhood of a base set

func genK5(t *rapid.T, maxN int) []string {
	var base []string
	if rapid.Bool().Draw(t, "base") {
		base = genK1(t, 20)
	} else {
		base = genK3(t, 40)
	}
	set := map[string]struct{}{}
	for _, k := range base {
		set[k] = struct{}{}
	}
	nm := rapid.IntRange(0, 40).Draw(t, "nmut")
	for i := 0; i < nm && len(base) > 0 && len(set) < maxN; i++ {
		k := []byte(base[rapid.IntRange(0, len(base)-1).Draw(t, "which")])
		switch rapid.IntRange(0, 5).Draw(t, "mut") {
		case 0: // one bit
			if len(k) > 0 {
				pos := rapid.IntRange(0, len(k)*8-1).Draw(t, "bit")
				k[pos>>3] ^= 0x80 >> uint(pos&7)
			}
		case 1: // one nibble
			if len(k) > 0 {
				pos := rapid.IntRange(0, len(k)-1).Draw(t, "pos")
				k[pos] ^= byte(rapid.SampledFrom([]int{0x10, 0x01, 0xf0, 0x0f}).Draw(t, "nib"))
			}
		case 2: // proper prefix
			if len(k) > 0 {
				k = k[:rapid.IntRange(0, len(k)-1).Draw(t, "plen")]
			}
		case 3:
			k = append(k, 0x00)
		case 4:
			k = append(k, 0xff)
		case 5:
			k = append(k, rapid.Byte().Draw(t, "ext"))
		}
		set[string(k)] = struct{}{}
	}
	return sortedSet(set)
}

// ---------------------------------------------------------------------------
// K6 counters

func genK6(t *rapid.T, maxN int) []string {
	width := rapid.IntRange(1, 8).Draw(t, "width")
	n := rapid.IntRange(0, maxN).Draw(t, "n")
	stride := uint64(rapid.SampledFrom([]int{1, 1, 2, 3, 15, 16, 17, 255, 256, 257, 4096, 65537}).Draw(t, "stride"))
	start := rapid.Uint64().Draw(t, "start")
	if rapid.Bool().Draw(t, "lowstart") {
		start &= 0xffff
	}
	set := map[string]struct{}{}
	v := start
	for i := 0; i < n; i++ {
		b := make([]byte, width)
		for j := 0; j < width; j++ {
			b[width-1-j] = byte(v >> (8 * uint(j)))
		}
		set[string(b)] = struct{}{}
		v += stride
	}
	return sortedSet(set)
}

// ---------------------------------------------------------------------------
// K7 archived key sets

var (
	assetMu    sync.Mutex
	assetCache = map[string][]string{}
)

func asset(name string) []string {
	assetMu.Lock()
	defer assetMu.Unlock()
	if k, ok := assetCache[name]; ok {
		return k
	}
	k := testkeys.Load(name)
	assetCache[name] = k
	return k
}

var assetNamesQuick = []string{"10ll16k", "10vl5", "11vl5", "300vl50", "20kl10", "20kvl10"}
var assetNamesThorough = []string{"10ll16k", "10vl5", "11vl5", "300vl50", "20kl10", "20kvl10", "50kl10", "50kvl10", "200kweb2"}

func genK7(t *rapid.T, maxN int) []string {
	names := assetNamesQuick
	if thorough() {
		names = assetNamesThorough
	}
	all := asset(rapid.SampledFrom(names).Draw(t, "asset"))
	if len(all) == 0 {
		return nil
	}
	stride := rapid.IntRange(1, 40).Draw(t, "stride")
	off := rapid.IntRange(0, len(all)-1).Draw(t, "off")
	n := rapid.IntRange(1, maxN).Draw(t, "n")
	var keys []string
	for i := off; i < len(all) && len(keys) < n; i += stride {
		keys = append(keys, all[i])
	}
	return uniqSorted(keys)
}

// ---------------------------------------------------------------------------
// Family selection

type famWeight struct {
	name string
	w    int
}

var defaultFamilies = []famWeight{
	{"K1", 30}, {"K2", 18}, {"K3", 10}, {"K4", 7}, {"K5", 10}, {"K6", 8}, {"K7", 5}, {"Krand", 6}, {"Kshort", 6}, {"Kmix", 8}, {"Kbd", 4},
}

func genKeysFam(t *rapid.T, fams []famWeight, sc sizeCap) ([]string, string) {
	if only := os.Getenv("VERIF_ONLY_FAM"); only != "" {
		fams = []famWeight{{only, 1}} // generator experiments only
	}
	total := 0
	for _, f := range fams {
		total += f.w
	}
	r := pickU(t, "family", total)
	name := fams[0].name
	for _, f := range fams {
		if r < f.w {
			name = f.name
			break
		}
		r -= f.w
	}
	maxN := drawCap(t, sc)
	var keys []string
	switch name {
	case "K1":
		keys = genK1(t, maxN)
	case "K2":
		keys = genK2(t, maxN)
	case "K3":
		keys = genK3(t, maxN)
	case "K4":
		keys = genK4(t, maxN)
	case "K5":
		keys = genK5(t, maxN)
	case "K6":
		keys = genK6(t, maxN)
	case "K7":
		keys = genK7(t, maxN)
	case "Kmix":
		if maxN < 3000 {
			maxN = 3000
		}
		keys = genKmix(t, maxN)
	case "Krand":
		keys = genRandomBytes(t, maxN)
	case "Kbd":
		keys = genBigDedupKeys(t)
	case "Kshort":
		maxS := 7
		big := sc.big
		if thorough() {
			maxS = 10
			big = sc.huge
		}
		s := rapid.IntRange(2, maxS).Draw(t, "shortsize")
		if sc.slowAPI {
			// String() is quadratic in the node count: large trees only now and then
			if s > 5 && pickU(t, "slowapi", 6) != 0 {
				s = 2 + s%4
			}
			if s > 3 && pickU(t, "slowapi2", 5) != 0 {
				s = 2 + s%2
			}
		}
		keys = genShortTarget(t, s, big)
	default:
		panic("unknown family " + name)
	}
	// Bitmap and rank-index code works in 64-bit words: one case in six is cut
	// to a key count at a word boundary (or one off).
	if len(keys) > 63 && pickU(t, "boundaryN", 6) == 0 {
		var cands []int
		for _, b := range []int{64, 128, 192, 256, 512, 1024, 2048, 4096, 8192} {
			for d := -1; d <= 1; d++ {
				if b+d <= len(keys) {
					cands = append(cands, b+d)
				}
			}
		}
		n := cands[pickU(t, "boundaryPick", len(cands))]
		off := rapid.IntRange(0, len(keys)-n).Draw(t, "boundaryOff")
		keys = keys[off : off+n]
		name += "@word"
	}
	return keys, name
}

func genKeys(t *rapid.T) ([]string, string) {
	return genKeysFam(t, defaultFamilies, caps())
}

// ---------------------------------------------------------------------------
// Values

// genVals draws payloads for n keys. Modes: distinct, runs, aba, random, pairdup.
func genVals(t *rapid.T, n int, enc string, forceRuns bool) ([]Hex, string) {
	s := encSpecs[enc]
	modes := []string{"distinct", "runs", "runs", "longruns", "aba", "random", "pairdup", "const"}
	mode := modes[pickU(t, "valmode", len(modes))]
	if forceRuns && (mode == "distinct" || mode == "random") {
		mode = "runs"
	}
	if n > 200 && rapid.IntRange(0, 5).Draw(t, "longrunsForBig") == 0 {
		mode = "longruns" // on larger sets whole branches should share a value now and then
	}
	seed := rapid.Uint64().Draw(t, "vseed")
	rng := &sm64{seed}
	runP := rapid.IntRange(1, 95).Draw(t, "runp") // percent chance that a run continues
	base := rapid.Uint64().Draw(t, "vbase")
	if rapid.Bool().Draw(t, "smallbase") {
		base &= 0xff
	}
	w := s.width
	// most value lists differ in their low bytes; now and then the difference
	// sits in one higher byte only (offsets that are a multiple of 2^k apart)
	vshift := uint(0)
	if rapid.IntRange(0, 4).Draw(t, "vshift?") == 0 {
		vshift = uint(8 * rapid.IntRange(1, 7).Draw(t, "vshift"))
	}
	// variable-length values: half of the cases take their lengths from a small
	// per-case palette, so that equal sizes with different contents are common
	var lenPalette []int
	if s.name == "String16" && rapid.Bool().Draw(t, "lenpalette?") {
		lenPalette = rapid.SliceOfN(rapid.SampledFrom([]int{0, 1, 1, 2, 2, 3, 3, 4, 5, 8, 40, 255, 256, 300}), 1, 4).Draw(t, "lenpalette")
	}
	payload := func(id uint64) Hex {
		if lenPalette != nil {
			h := sm64{id}
			l := lenPalette[h.intn(len(lenPalette))]
			b := make([]byte, l)
			for i := range b {
				b[i] = byte(id >> (8 * uint(i%8)))
				if i >= 8 {
					b[i] ^= byte(i)
				}
			}
			return Hex(b)
		}
		if vshift > 0 {
			id = base&((1<<vshift)-1) | (id-base)<<vshift
		}
		switch {
		case s.name == "String16":
			// distinct strings of various lengths, including "" for id 0
			if id == 0 {
				return ""
			}
			l := int((id * 7) % 40)
			if id%13 == 0 {
				l = 255 + int(id%50)
			}
			if id%97 == 5 {
				l = 1000 + int(id%4000) // a few long values
			}
			if id%1009 == 7 {
				l = 65535 - len(fmt.Sprintf("%x", id)) // the longest value String16 can hold
			}
			return Hex(strings.Repeat(string([]byte{byte(id)}), l) + fmt.Sprintf("%x", id))
		case s.name == "Dummy":
			return Hex(leBytes(id, 4))
		case s.name == "OptU16":
			return Hex(leBytes(id, 2)) // absent when the first byte is a multiple of 3
		default:
			return Hex(leBytes(id, w))
		}
	}
	edge := []uint64{0, 1, 0x7f, 0x80, 0xff, 0x7fff, 0x8000, 0xffff, 0x7fffffff, 0x80000000, 0xffffffff,
		0x7fffffffffffffff, 0x8000000000000000, 0xffffffffffffffff}
	vals := make([]Hex, n)
	id := base
	if s.name == "TypeEncF" && rapid.Bool().Draw(t, "floatedge") {
		// values that Go's == / DeepEqual confuse but whose encodings differ (+0 / -0),
		// or that are never equal to themselves (NaN), next to each other
		pal := []uint64{0x0000000000000000, 0x8000000000000000, 0x3ff0000000000000, 0x7ff8000000000001, 0x7ff8000000000002, 0xfff0000000000000}
		for i := 0; i < n; i++ {
			b := leBytes(pal[rng.intn(len(pal))], 8)
			g := []uint64{0x00000000, 0x80000000, 0x7fc00000}[rng.intn(3)]
			vals[i] = Hex(append(b, leBytes(g, 4)...))
			if i > 0 && rng.intn(100) < runP/2 {
				vals[i] = vals[i-1]
			}
		}
		return vals, "floatedge"
	}
	if s.name == "OptU16" && n > 0 && rapid.Bool().Draw(t, "presencepattern") {
		// optional values: WHERE the absent ones sit (whole bitmap words without a
		// present value, at the head, at the tail, in the middle)
		present := func(i int) Hex {
			id := base + uint64(i)
			return Hex([]byte{byte(1 + 3*(id%85)), byte(id / 85)})
		}
		pat := []string{"tail-absent", "head-present", "head-absent", "one-present", "blocks"}[pickU(t, "presence", 5)]
		k := []int{1, 2, 63, 64, 65, n / 2, n - 1}[pickU(t, "presencek", 7)]
		if k > n {
			k = n
		}
		if k < 0 {
			k = 0
		}
		one := rng.intn(n)
		for i := 0; i < n; i++ {
			var here bool
			switch pat {
			case "tail-absent":
				here = i < n-k
			case "head-present":
				here = i < k
			case "head-absent":
				here = i >= k
			case "one-present":
				here = i == one
			default:
				here = (i/64)%2 == int(base%2)
			}
			if here {
				vals[i] = present(i)
			} else {
				vals[i] = Hex("")
			}
		}
		return vals, "presence/" + pat
	}
	for i := 0; i < n; i++ {
		switch mode {
		case "distinct":
			vals[i] = payload(base + uint64(i))
		case "runs":
			if i > 0 && rng.intn(100) >= runP {
				id++
			}
			vals[i] = payload(id)
		case "longruns": // mean run length 10*runP .. : whole branches share one value
			if i > 0 && rng.intn(10*runP+1) == 0 {
				id++
			}
			vals[i] = payload(id)
		case "aba":
			vals[i] = payload(base + uint64(rng.intn(3)))
		case "random":
			if rng.intn(3) == 0 {
				vals[i] = payload(edge[rng.intn(len(edge))])
			} else {
				vals[i] = payload(rng.next())
			}
		case "pairdup":
			vals[i] = payload(base + uint64(i/2))
		case "const":
			vals[i] = payload(base)
		}
	}
	capValueBytes(vals)
	return vals, mode
}

// capValueBytes keeps the total size of one generated value list within a budget
// (long String16 values repeated over a run of many keys add up to gigabytes; the
// 32-bit pass has an address space of 4 GB for everything). Values longer than 512
// bytes are cut to their tail from the point where the budget is spent: equal
// values stay equal, different ones stay different (the tail carries the id), so
// the run structure of the list is unchanged.
func capValueBytes(vals []Hex) {
	budget := 192 << 20
	if bits.UintSize == 32 {
		budget = 48 << 20
	}
	for i, v := range vals {
		if len(v) <= 512 {
			continue
		}
		if budget -= len(v); budget < 0 {
			vals[i] = v[len(v)-24:]
		}
	}
}

// genBranchVals: values that follow the top-level branch structure of the key
// set ("runs that cover whole branches / cross sub-trie boundaries"). Every
// group of keys sharing the first byte either gets distinct values inside (D),
// continues the previous key's value for the whole branch (C), or gets one new
// value for the whole branch (N).
func genBranchVals(t *rapid.T, keys []string, enc string) []Hex {
	s := encSpecs[enc]
	pC := rapid.SampledFrom([]int{30, 70, 95, 99}).Draw(t, "pContinue")
	pD := rapid.SampledFrom([]int{10, 50, 90}).Draw(t, "pDistinct")
	headD := rapid.IntRange(0, 4).Draw(t, "headDistinct") // the first branches always get distinct values
	// 'J' (C18-g): only the FIRST key of a branch continues the run of the branch
	// before it, every other key of the branch is distinct — a run that crosses a
	// sub-trie boundary by exactly one key
	pJ := rapid.SampledFrom([]int{0, 0, 40, 80}).Draw(t, "pJoinHead")
	seed := rapid.Uint64().Draw(t, "bseed")
	rng := &sm64{seed}
	payload := func(id uint64) Hex {
		if s.name == "String16" {
			return Hex(fmt.Sprintf("b%x", id))
		}
		if s.width == 0 {
			return Hex(leBytes(id, 4))
		}
		return Hex(leBytes(id, s.width))
	}
	vals := make([]Hex, len(keys))
	id := uint64(1)
	branch := -1
	mode := byte('D')
	for i, k := range keys {
		first := -1
		if len(k) > 0 {
			first = int(k[0])
		}
		if i == 0 || first != func() int {
			if len(keys[i-1]) > 0 {
				return int(keys[i-1][0])
			}
			return -1
		}() {
			branch++
			switch {
			case branch < headD:
				mode = 'D'
			case branch > 0 && rng.intn(100) < pJ:
				mode = 'J'
			case rng.intn(100) < pC:
				mode = 'C'
			case rng.intn(100) < pD:
				mode = 'D'
			default:
				mode = 'N'
				id++
			}
		}
		if mode == 'D' {
			id++
		}
		vals[i] = payload(id)
		if mode == 'J' {
			mode = 'D' // from the second key of the branch on
		}
	}
	return vals
}

// ---------------------------------------------------------------------------
// Options, encoders, load states

func genOpt(t *rapid.T) OptSpec {
	var o OptSpec
	// Weighted so that each of the four information levels is well covered.
	level := pickU(t, "optlevel", 10)
	tri := func(label string) Tri { return Tri(rapid.IntRange(0, 2).Draw(t, label)) }
	o[0] = tri("dedup")
	switch {
	case level < 4: // free draw of all fields
		o[1], o[2], o[3] = tri("inner"), tri("leaf"), tri("complete")
	case level < 6: // some spelling of Complete
		switch rapid.IntRange(0, 2).Draw(t, "cspell") {
		case 0:
			o[3] = 2
			o[1], o[2] = tri("inner"), tri("leaf")
		case 1:
			o[1], o[2] = 2, 2
			o[3] = Tri(rapid.IntRange(0, 1).Draw(t, "complete01"))
		default:
			o[1], o[2], o[3] = 2, 2, 2
		}
	case level < 7:
		o[1] = 2
		o[2] = Tri(rapid.IntRange(0, 1).Draw(t, "leaf01"))
		o[3] = Tri(rapid.IntRange(0, 1).Draw(t, "complete01"))
	case level < 8:
		o[2] = 2
		o[1] = Tri(rapid.IntRange(0, 1).Draw(t, "inner01"))
		o[3] = Tri(rapid.IntRange(0, 1).Draw(t, "complete01"))
	default:
		o[1] = Tri(rapid.IntRange(0, 1).Draw(t, "inner01"))
		o[2] = Tri(rapid.IntRange(0, 1).Draw(t, "leaf01"))
		o[3] = Tri(rapid.IntRange(0, 1).Draw(t, "complete01"))
	}
	return o
}

func genCompleteOpt(t *rapid.T) OptSpec {
	var o OptSpec
	o[0] = Tri(rapid.IntRange(0, 2).Draw(t, "dedup"))
	switch rapid.IntRange(0, 2).Draw(t, "cspell") {
	case 0:
		o[3] = 2
		o[1], o[2] = Tri(rapid.IntRange(0, 2).Draw(t, "inner")), Tri(rapid.IntRange(0, 2).Draw(t, "leaf"))
	case 1:
		o[1], o[2] = 2, 2
		o[3] = Tri(rapid.IntRange(0, 1).Draw(t, "complete01"))
	default:
		o[1], o[2], o[3] = 2, 2, 2
	}
	return o
}

func genEnc(t *rapid.T, names []string) string {
	// I32 is the most common encoder in real use: weight it.
	if rapid.IntRange(0, 3).Draw(t, "encI32") == 0 {
		return "I32"
	}
	return names[pickU(t, "enc", len(names))]
}

func genLoad(t *rapid.T) string {
	return []string{"", "", "reload", "proto", "over"}[pickU(t, "load", 5)]
}

// genTrieCase draws the common part of a trie case.
type trieGenOpt struct {
	slowAPI   bool
	encs      []string
	complete  bool
	forceRuns bool
	needVals  bool
	fams      []famWeight
}

func genTrieCase(t *rapid.T, g trieGenOpt) *Case {
	c := &Case{}
	fams := g.fams
	if fams == nil {
		fams = defaultFamilies
	}
	sc := caps()
	if g.slowAPI {
		sc.slowAPI = true
		sc.big = 1500
		if sc.huge > 20000 {
			sc.huge = 20000
		}
		if !thorough() {
			sc.huge = 1500
		}
	}
	keys, fam := genKeysFam(t, fams, sc)
	c.Gen = fam
	c.Keys = hexes(keys)
	encs := g.encs
	if encs == nil {
		encs = allEncNames
	}
	c.Enc = genEnc(t, encs)
	if g.complete {
		c.Opt = genCompleteOpt(t)
	} else {
		c.Opt = genOpt(t)
	}
	c.HasVals = g.needVals || rapid.IntRange(0, 4).Draw(t, "hasvals") != 0
	if strings.HasPrefix(fam, "Kbd") {
		// the family exists for its value layout: whole first-byte branches are
		// de-duplicated away (dedup is left to the drawn options: with it off the
		// shape is simply a wide root over repeated nodes)
		c.HasVals = true
		c.Vals, c.VMode = genBigDedupVals(t, keys, c.Enc), "bigdedup"
	} else if c.HasVals {
		if len(keys) >= 8 && pickU(t, "branchvals", 6) == 0 {
			c.Vals, c.VMode = genBranchVals(t, keys, c.Enc), "branch"
		} else {
			c.Vals, c.VMode = genVals(t, len(keys), c.Enc, g.forceRuns)
		}
	}
	c.Load = genLoad(t)
	return c
}

func genExtra(t *rapid.T, c *Case) {
	ex := rapid.SliceOfN(rapid.SliceOfN(rapid.Byte(), 0, 9), 0, 6).Draw(t, "extra")
	for _, e := range ex {
		c.Extra = append(c.Extra, Hex(e))
	}
	if len(c.Keys) > 0 {
		c.Win = rapid.IntRange(0, len(c.Keys)-1).Draw(t, "win")
	}
}

// ---------------------------------------------------------------------------
// Query sets

const queryWindow = 16

// queries is Q(keys): a deterministic function of the key list, the window and the extras.
func queries(keys []string, win int, extra []Hex, pathological bool) []string {
	seen := map[string]struct{}{}
	var out []string
	add := func(s string) {
		if _, ok := seen[s]; !ok {
			seen[s] = struct{}{}
			out = append(out, s)
		}
	}
	n := len(keys)
	var idx []int
	if n <= 64 {
		for i := range keys {
			idx = append(idx, i)
		}
	} else {
		idx = append(idx, 0, n-1)
		for i := 0; i < queryWindow; i++ {
			idx = append(idx, (win+i)%n)
		}
	}
	maxLen := 0
	for _, i := range idx {
		k := keys[i]
		if len(k) > maxLen {
			maxLen = len(k)
		}
		add(k)
		// positions to mutate: all for short keys, a spread for long ones
		var pos []int
		if len(k) <= 10 {
			for p := 0; p < len(k); p++ {
				pos = append(pos, p)
			}
		} else {
			l := len(k)
			for _, p := range []int{0, 1, 2, l / 4, l / 2, l/2 + 1, 3 * l / 4, l - 3, l - 2, l - 1} {
				pos = append(pos, p)
			}
		}
		for _, p := range pos {
			b := []byte(k)
			for bit := 0; bit < 8; bit++ {
				b[p] ^= 1 << uint(bit)
				add(string(b))
				b[p] ^= 1 << uint(bit)
			}
			for _, v := range []byte{0x00, 0xff, b[p] + 1, b[p] - 1} {
				if v != b[p] {
					o := b[p]
					b[p] = v
					add(string(b))
					b[p] = o
				}
			}
			add(k[:p]) // proper prefix
		}
		add(k + "\x00")
		add(k + "\xff")
		add(k + k + "x")
		// two bytes changed in opposite directions, 1 or 5 bytes apart (the first
		// difference decides the order, whatever follows)
		for _, p := range pos {
			for _, d := range []int{1, 5} {
				if p+d >= len(k) {
					continue
				}
				b := []byte(k)
				b[p]++
				b[p+d]--
				add(string(b))
				b[p] -= 2
				b[p+d] += 2
				add(string(b))
			}
		}
		// crossovers with the next indexed key and with a far one: the head of one
		// key continued by the tail of another (absent siblings from the same universe)
		for _, o := range []string{keys[(i+1)%n], keys[(n-1-i+n)%n]} {
			if o == k {
				continue
			}
			for _, p := range pos {
				if p > 0 && p < len(o) {
					add(k[:p] + o[p:])
				}
			}
		}
	}
	add("")
	for _, l := range []int{1, 2, maxLen, maxLen + 1, 64} {
		if l > 0 {
			add(strings.Repeat("\x00", l))
			add(strings.Repeat("\xff", l))
		}
	}
	if n > 0 {
		first, last := keys[0], keys[n-1]
		if len(first) > 0 {
			b := []byte(first)
			if b[len(b)-1] > 0 {
				b[len(b)-1]--
				add(string(b))
			}
		}
		add(last + "\xff\xff")
		add(last + strings.Repeat("z", 1000))
	}
	if pathological {
		add(strings.Repeat("\x00", 65536))
		add(strings.Repeat("\xff", 65536))
		add(strings.Repeat("\x61", 70000))
	}
	for _, e := range extra {
		add(string(e))
	}
	return out
}

// genPeriodic (C17, round g): three-level tries below a wide root whose second-
// and third-level inner nodes follow a periodic pattern in breadth-first order —
// one wide node (11..14 children) followed by p-1 narrow ones (2..3 children) —
// with the labels of the i-th inner node placed by a policy: lowest bytes,
// highest bytes, or "word top": bytes that would land on the top bit of a 64-bit
// bitmap word if the node were stored in a slot of 257 (or 17) bits. The last
// policy makes every set bit cost a full varint, whatever node kind the builder
// chooses; the size bound is a worst-case statement, so the worst case is sought.
func genPeriodic(t *rapid.T, maxN int) []string {
	p := rapid.IntRange(2, 7).Draw(t, "period")
	wide := rapid.IntRange(11, 14).Draw(t, "wide")
	narrow := rapid.IntRange(2, 3).Draw(t, "narrow")
	policy := pickU(t, "placement", 4) // 0 low, 1 high, 2 word-top/257, 3 word-top/17
	rootFan := rapid.SampledFrom([]int{256, 128, 64, 17, 11}).Draw(t, "rootfan")
	phase := rapid.IntRange(0, p-1).Draw(t, "phase")
	labels := func(ith int) []byte {
		n := narrow
		if (ith+phase)%p == 0 {
			n = wide
		}
		used := map[int]bool{}
		switch policy {
		case 0:
		case 1:
			for b := 255; len(used) < n; b-- {
				used[b] = true
			}
		default:
			slot := 257
			if policy == 3 {
				slot = 17
			}
			b0 := ((62-slot*ith)%64 + 64) % 64
			for m := 0; m < 4 && len(used) < n; m++ {
				used[b0+64*m] = true
			}
		}
		for b := 0; len(used) < n; b++ {
			used[b] = true
		}
		out := make([]byte, 0, n)
		for b := 0; b < 256; b++ {
			if used[b] {
				out = append(out, byte(b))
			}
		}
		return out
	}
	var keys []string
	third := 1 + rootFan
	for b0 := 0; b0 < rootFan && len(keys) < maxN; b0++ {
		for _, b1 := range labels(1 + b0) {
			for _, b2 := range labels(third) {
				keys = append(keys, string([]byte{byte(b0 * (256 / rootFan)), b1, b2}))
			}
			third++
		}
	}
	return uniqSorted(keys)
}

// Kbd (session 2; the seeded change C01-b had become a one-seed-in-four catch):
// a node that is WIDE by the number of distinct next bytes among all keys (so the
// builder makes it a 257-bit node) but keeps only 1..6 labels once value
// de-duplication has dropped whole branches; the kept labels mix bytes below 0x10
// (which land in the first 17 bits of the bitmap) with bytes from 0x3f on; below
// every first byte hang the same small nibble subtrees, so that identical 17-bit
// nodes repeat and a short-node table is built. Optionally the wide node sits
// below a one- or two-byte common prefix, and a second wide node follows.
func genBigDedupKeys(t *rapid.T) []string {
	prefix := string(rapid.SliceOfN(rapid.Byte(), 0, 2).Draw(t, "bdprefix"))
	if rapid.Bool().Draw(t, "bdform") {
		// second form: two or three low lead bytes that spell one nibble pair, each
		// over a full binary subtree whose levels use 2..3 distinct nibble pairs, and
		// a run of 11..40 single-byte keys with high bytes (one value for the run)
		pairs := [][2]byte{{1, 2}, {1, 3}, {2, 3}, {0, 1}, {4, 5}, {0, 2}, {14, 15}}
		o := pickU(t, "bdpairoff", len(pairs))
		npal := rapid.IntRange(2, 3).Draw(t, "bdpal")
		depth := 2 * rapid.IntRange(1, 3).Draw(t, "bddepth")
		level := make([][2]byte, depth)
		for d := range level {
			level[d] = pairs[(o+pickU(t, "bdlevel", npal))%len(pairs)]
		}
		leadPair := pairs[(o+pickU(t, "bdlead", npal))%len(pairs)]
		set := map[string]struct{}{}
		for _, lead := range leadPair {
			for i := 0; i < 1<<uint(depth); i++ {
				k := []byte{lead}
				for j := 0; j < depth; j += 2 {
					k = append(k, level[j][(i>>uint(j))&1]<<4|level[j+1][(i>>uint(j+1))&1])
				}
				set[prefix+string(k)] = struct{}{}
			}
		}
		start := rapid.IntRange(0x40, 0xd0).Draw(t, "bdrunstart")
		run := rapid.IntRange(11, 40).Draw(t, "bdrun")
		for b := start; b < start+run && b < 256; b++ {
			set[prefix+string([]byte{byte(b)})] = struct{}{}
		}
		return sortedSet(set)
	}
	// several nibble sets, each repeated below many first bytes: enough distinct
	// frequent 17-bit bitmaps for a short table of size 2..4
	all := [][]byte{{1, 2}, {1, 3}, {2, 3}, {1, 2, 3}, {0, 1}, {0, 2}, {4, 5}, {1, 2, 4}, {0, 1, 2, 3}, {14, 15}, {3}, {1}}
	np := rapid.IntRange(2, len(all)).Draw(t, "bdpatterns")
	off := pickU(t, "bdpatoff", len(all))
	pats := make([][]byte, np)
	for i := range pats {
		pats[i] = all[(off+i)%len(all)]
	}
	// the low first bytes ARE one of the nibble sets (as bytes): the wide node's
	// bitmap restricted to its first word then equals a frequent 17-bit bitmap
	lows := pats[pickU(t, "bdlowset", np)]
	nHigh := rapid.IntRange(9, 120).Draw(t, "bdhigh")
	firsts := map[byte]bool{}
	for _, b := range lows {
		firsts[b] = true
	}
	for len(firsts) < len(lows)+nHigh {
		firsts[byte(rapid.IntRange(0x3f, 0xff).Draw(t, "highbyte"))] = true
	}
	set := map[string]struct{}{}
	for f := 0; f < 256; f++ {
		if !firsts[byte(f)] {
			continue
		}
		p := pats[f%np]
		for _, hi := range p {
			for _, lo := range p {
				set[prefix+string([]byte{byte(f), hi<<4 | lo})] = struct{}{}
			}
		}
	}
	return sortedSet(set)
}

// genBigDedupVals: every key of a kept branch (1..6 first bytes, at least one low
// and one high where available) gets a value of its own; every key of any other
// branch repeats the value of the key before it, so the whole branch is dropped
// when de-duplication is on.
func genBigDedupVals(t *rapid.T, keys []string, enc string) []Hex {
	s := encSpecs[enc]
	payload := func(id uint64) Hex {
		if s.name == "String16" {
			return Hex(fmt.Sprintf("v%x", id))
		}
		if s.width == 0 {
			return Hex(leBytes(id*3+1, 2)) // OptU16: present values
		}
		return Hex(leBytes(id, s.width))
	}
	// branch = the byte after the longest common prefix of all keys
	lcp := 0
	if len(keys) > 1 {
		a, b := keys[0], keys[len(keys)-1]
		for lcp < len(a) && lcp < len(b) && a[lcp] == b[lcp] {
			lcp++
		}
	}
	var branches []byte
	for _, k := range keys {
		if len(k) > lcp && (len(branches) == 0 || branches[len(branches)-1] != k[lcp]) {
			branches = append(branches, k[lcp])
		}
	}
	kept := map[byte]bool{}
	if rapid.IntRange(0, 3).Draw(t, "bdkeeplows") != 0 {
		for _, b := range branches {
			if b < 0x10 {
				kept[b] = true
			}
		}
	}
	nk := rapid.IntRange(0, 4).Draw(t, "bdkept")
	for i := 0; i < nk && len(branches) > 0; i++ {
		kept[branches[pickU(t, "bdkeep", len(branches))]] = true
	}
	if len(branches) > 0 && rapid.Bool().Draw(t, "bdkeepends") {
		kept[branches[len(branches)-1]] = true
	}
	vals := make([]Hex, len(keys))
	id := uint64(rapid.IntRange(0, 200).Draw(t, "bdbase"))
	for i, k := range keys {
		if i == 0 || (len(k) > lcp && kept[k[lcp]]) {
			id++
		}
		vals[i] = payload(id)
	}
	return vals
}

// genStepless (C17; the seeded change C17-d had been caught by a lucky large
// case): thousands of inner nodes and not a single step — every nibble position
// branches. K has no step, P+K has exactly one: whatever the library stores per
// inner node only "when some node has a step" shows up as a size difference
// proportional to the node count.
func genStepless(t *rapid.T) []string {
	depth := rapid.IntRange(11, 13).Draw(t, "sldepth")
	if depth%2 == 1 {
		depth++ // whole bytes
	}
	a := byte(rapid.IntRange(0, 14).Draw(t, "slnib"))
	b := a + 1 + byte(rapid.IntRange(0, int(14-a)).Draw(t, "slnib2"))
	keys := make([]string, 0, 1<<uint(depth))
	for i := 0; i < 1<<uint(depth); i++ {
		k := make([]byte, depth/2)
		for j := 0; j < depth; j++ {
			n := a
			if i>>uint(depth-1-j)&1 == 1 {
				n = b
			}
			if j%2 == 0 {
				k[j/2] = n << 4
			} else {
				k[j/2] |= n
			}
		}
		keys = append(keys, string(k))
	}
	return keys
}
