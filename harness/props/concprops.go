package props

import (
	"bytes"
	"crypto/sha1"
	"encoding/json"
	"fmt"
	"github.com/openacid/slim/index"
	"os"
	"reflect"
	"runtime"
	"strings"
	"sync"
	"sync/atomic"

	"github.com/golang/protobuf/proto"
	"github.com/openacid/slim/array"
	"github.com/openacid/slim/trie"
)

// ---------------------------------------------------------------------------
// C11: a SlimTrie is safely shareable between concurrent readers.

type iterState struct {
	next trie.NextRaw
}

// execOps runs one worker's operation list and returns one result string per op.
// It never touches *rapid.T or *testing.T.
func execOps(st *trie.SlimTrie, enc string, ops []ReadOp) []string {
	// enc == "" : the typed getters are outside their domain (no values / other encoder)
	out := make([]string, 0, len(ops))
	iters := map[int]*iterState{}
	for _, op := range ops {
		op := op
		if op.Yield {
			runtime.Gosched()
		}
		k := string(op.Key)
		out = append(out, capture(func() string {
			switch op.Op {
			case "get":
				v, f := st.Get(k)
				return fmt.Sprintf("%v,%v", v, f)
			case "getid":
				return fmt.Sprintf("%v", st.GetID(k) >= 0)
			case "rangeget":
				v, f := st.RangeGet(k)
				return fmt.Sprintf("%v,%v", v, f)
			case "search":
				l, e, r := st.Search(k)
				return fmt.Sprintf("%v,%v,%v", l, e, r)
			case "typed":
				switch enc {
				case "I8":
					v, f := st.GetI8(k)
					return fmt.Sprintf("%v,%v", v, f)
				case "I16":
					v, f := st.GetI16(k)
					return fmt.Sprintf("%v,%v", v, f)
				case "I32":
					v, f := st.GetI32(k)
					return fmt.Sprintf("%v,%v", v, f)
				case "I64":
					v, f := st.GetI64(k)
					return fmt.Sprintf("%v,%v", v, f)
				}
				v, f := st.Get(k)
				return fmt.Sprintf("%v,%v", v, f)
			case "scanfrom", "scanfromto":
				h := sha1.New()
				n := 0
				cb := func(key, val []byte) bool {
					fmt.Fprintf(h, "%x=%x;", key, val)
					n++
					if op.Yield && n%4 == 0 {
						runtime.Gosched()
					}
					return op.Steps <= 0 || n < op.Steps
				}
				if op.Op == "scanfrom" {
					st.ScanFrom(k, op.Flag&1 == 1, op.Flag&2 == 2, cb)
				} else {
					st.ScanFromTo(k, op.Flag&1 == 1, string(op.End), op.Flag&4 == 4, op.Flag&2 == 2, cb)
				}
				return fmt.Sprintf("%d entries %x", n, h.Sum(nil)[:6])
			case "iternew":
				iters[op.Flag>>4] = &iterState{next: st.NewIter(k, op.Flag&1 == 1, op.Flag&2 == 2)}
				return "iter"
			case "iterstep":
				it := iters[op.Flag>>4]
				if it == nil {
					return "no iterator"
				}
				var sb strings.Builder
				for i := 0; i < op.Steps; i++ {
					key, val := it.next()
					if key == nil {
						sb.WriteString("<end>")
						break
					}
					fmt.Fprintf(&sb, "%x=%x;", key, val)
				}
				return sb.String()
			case "stat":
				return fmt.Sprintf("%+v", *st.Stat())
			case "string":
				s := st.String()
				return fmt.Sprintf("%d:%x", len(s), sha1.Sum([]byte(s)))
			case "marshal":
				b, err := st.Marshal()
				return fmt.Sprintf("%d:%x:%v", len(b), sha1.Sum(b), err)
			}
			return "unknown op " + op.Op
		}))
	}
	return out
}

// typedEnc returns the encoder name when GetI8..GetI64 are within their
// documented domain (values supplied and encoded with the matching integer encoder).
func typedEnc(c *Case) string {
	if !c.HasVals {
		return ""
	}
	switch c.Enc {
	case "I8", "I16", "I32", "I64":
		return c.Enc
	}
	return ""
}

// coldPrefix: one use of every read API (scans only where they are legal).
func coldPrefix(c *Case) []ReadOp {
	k := Hex("")
	if len(c.Keys) > 0 {
		k = c.Keys[len(c.Keys)/2]
	}
	ops := []ReadOp{{Op: "string"}, {Op: "stat"}, {Op: "marshal"}, {Op: "get", Key: k}, {Op: "search", Key: k}, {Op: "rangeget", Key: k}, {Op: "getid", Key: k}, {Op: "typed", Key: k}}
	if c.Opt.complete() {
		ops = append(ops, ReadOp{Op: "scanfrom", Key: "", Flag: 3, Steps: 3}, ReadOp{Op: "iternew", Key: k, Flag: 1}, ReadOp{Op: "iterstep", Steps: 2})
	}
	return ops
}

func isScanOp(op string) bool {
	switch op {
	case "scanfrom", "scanfromto", "iternew", "iterstep":
		return true
	}
	return false
}

// currentCaseFile: the driver picks this file up when the race detector kills the process.
func noteCurrentCase(c *Case) {
	path := os.Getenv("VERIF_CURRENT_CASE")
	if path == "" {
		return
	}
	b, _ := json.Marshal(c)
	tmp := path + ".tmp"
	if os.WriteFile(tmp, b, 0o644) == nil {
		os.Rename(tmp, path)
	}
}

func checkC11(c *Case, s *Stats) error {
	m := newModel(c)
	fresh, st, err := c.load()
	if err != nil {
		return err
	}
	noteCurrentCase(c)
	complete := c.Opt.complete()
	_ = fresh // no call on any instance before the concurrent phase (cold start)
	// independent builds running at the same time (under the race detector)
	if len(c.Keys)%3 == 0 {
		for _, e := range buildConcurrently(concurrentBuildCases(len(c.Keys))[:4]) {
			if e != nil {
				return e
			}
		}
		s.class("concurrent_builds_phase")
	}

	// independent readers on separate instances at the same time
	if len(c.Keys)%5 == 0 {
		if err := independentReaders(len(c.Keys), s); err != nil {
			return err
		}
	}

	// independent loads on separate instances at the same time
	if len(c.Keys)%2 == 0 && c.Enc != "Dummy" {
		if err := concurrentLoads(c, fresh, m, s); err != nil {
			return err
		}
	}

	// 1. all workers concurrently on ONE shared instance that no call has touched
	// yet. This phase runs FIRST: state that is initialised lazily on first use
	// (per instance, or process-wide) is then initialised under concurrency. Two
	// workers start with a fixed prefix that uses every read API once.
	workers := make([][]ReadOp, len(c.Workers))
	copy(workers, c.Workers)
	prefix := coldPrefix(c)
	for w := 0; w < len(workers) && w < 2; w++ {
		workers[w] = append(append([]ReadOp{}, prefix...), workers[w]...)
	}
	rounds := 1
	if c.Scrib > 1 {
		rounds = c.Scrib
	}
	prev := runtime.GOMAXPROCS(0)
	if c.Procs > 0 {
		runtime.GOMAXPROCS(c.Procs)
	}
	defer runtime.GOMAXPROCS(prev)
	results := make([][][]string, rounds)
	for round := 0; round < rounds; round++ {
		got := make([][]string, len(workers))
		var wg sync.WaitGroup
		start := make(chan struct{})
		for w := range workers {
			w := w
			wg.Add(1)
			go func() {
				defer wg.Done()
				<-start
				got[w] = execOps(st, typedEnc(c), workers[w])
			}()
		}
		close(start)
		wg.Wait()
		results[round] = got
	}
	// 2. every worker's list executed alone, sequentially, in the same binary, on
	// an identically prepared second instance
	_, st2, err := c.load()
	if err != nil {
		return err
	}
	base := make([][]string, len(workers))
	for w, ops := range workers {
		base[w] = execOps(st2, typedEnc(c), ops)
		for i, r := range base[w] {
			if strings.HasPrefix(r, "panic:") && (!isScanOp(ops[i].Op) || complete) {
				return viol("panic", "single-threaded %s(%s) panicked in this build: %s", ops[i].Op, q(string(ops[i].Key)), r)
			}
		}
	}
	for round := range results {
		for w := range workers {
			for i := range base[w] {
				if results[round][w][i] != base[w][i] {
					op := workers[w][i]
					return viol("concurrent-differs", "goroutine %d op %d %s(%s): concurrent result %q, alone %q (%d goroutines, GOMAXPROCS %d)", w, i, op.Op, q(string(op.Key)), results[round][w][i], base[w][i], len(workers), c.Procs)
				}
			}
		}
	}
	// 3. MANY scans in flight at once on the shared instance ("any number of
	// goroutines"): every goroutine blocks inside its first callback until all
	// scans have started, so that N scans are open at the same time.
	if complete && len(m.Keys) >= 2 {
		if err := manyScansInFlight(st, st2, m.Keys, len(c.Keys)+len(c.Workers), s); err != nil {
			return err
		}
	}
	sh, ok := shapeOf(st2)
	classify(s, c, m, sh, ok)
	nops := 0
	mixed := 0
	for _, ops := range c.Workers {
		nops += len(ops)
		hasScan, hasLookup := false, false
		for _, op := range ops {
			s.class("op=" + op.Op)
			if isScanOp(op.Op) {
				hasScan = true
			} else {
				hasLookup = true
			}
		}
		if hasScan && hasLookup {
			mixed++
		}
	}
	s.calls(nops * (1 + rounds))
	s.class(fmt.Sprintf("goroutines=%s", bucket(len(c.Workers))))
	s.class(fmt.Sprintf("gomaxprocs=%d", c.Procs))
	s.done(c, mixed >= 2 && ok && sh.Prefixes > 0, c.Opt.mode()+c.Load)
	return nil
}

// concurrentBuildCases: 8 different key sets whose inner nodes carry steps of
// different lengths; option levels and encoders vary.
func concurrentBuildCases(round int) []*Case {
	var out []*Case
	for g := 0; g < 8; g++ {
		r := sm64{uint64(round*131 + g*7 + 1)}
		n := 1500 + r.intn(3000)
		if round%2 == 1 {
			n *= 5 // longer builds overlap even when the scheduler hands out few threads
		}
		set := map[string]struct{}{}
		for len(set) < n {
			// group prefix (2 bytes) + shared run of g+1..g+6 bytes + 2 distinguishing bytes
			p := []byte{byte(r.next()), byte(r.next())}
			run := strings.Repeat(string([]byte{byte('a' + g)}), 1+g+r.intn(5))
			for j := 0; j < 3; j++ {
				set[string(p)+run+string([]byte{byte(r.next()), byte(j)})] = struct{}{}
			}
		}
		keys := sortedSet(set)
		c := &Case{Gen: "concurrent-build", Keys: hexes(keys), Enc: "I32", HasVals: true,
			Opt: []OptSpec{{0, 0, 0, 0}, {1, 0, 2, 0}, {0, 2, 0, 0}, {0, 0, 0, 2}}[(g+round)%4]}
		for i := range keys {
			c.Vals = append(c.Vals, Hex(leBytes(uint64(i*3+g), 4)))
		}
		out = append(out, c)
	}
	return out
}

// buildConcurrently builds all cases at the same time and checks every trie
// against its own model afterwards.
func buildConcurrently(cases []*Case) []error {
	errs := make([]error, len(cases))
	tries := make([]*trie.SlimTrie, len(cases))
	var wg sync.WaitGroup
	start := make(chan struct{})
	for i := range cases {
		i := i
		wg.Add(1)
		go func() {
			defer wg.Done()
			<-start
			errs[i] = guard("NewSlimTrie (one of several concurrent builds)", func() error {
				st, e := cases[i].build()
				if e != nil {
					return viol("valid-rejected", "NewSlimTrie rejected valid input while other builds were running: %v", e)
				}
				tries[i] = st
				return nil
			})
		}()
	}
	close(start)
	wg.Wait()
	for i, c := range cases {
		if errs[i] != nil {
			continue
		}
		m := newModel(c)
		st := tries[i]
		errs[i] = guard("lookup of own keys", func() error {
			for j, k := range m.Keys {
				v, f := st.Get(k)
				if !f || !valEq(v, m.Want[j]) {
					return viol("mis-indexed", "a trie built while other tries were being built: Get(%s) = (%v,%v), want (%v,true)", q(k), v, f, m.Want[j])
				}
			}
			return nil
		})
	}
	return errs
}

// concurrentRound: one round of 8 concurrent independent builds.
func concurrentRound(round int, s *Stats) error {
	cases := concurrentBuildCases(round)
	for _, e := range buildConcurrently(cases) {
		if e != nil {
			return e
		}
	}
	s.doneHash(uint64(round), true)
	s.calls(len(cases))
	s.class("concurrent_independent_builds")
	return nil
}

// concurrentArrays: 8 goroutines construct arrays of different kinds and sizes
// at the same time (constructors and Init on a re-used instance); every array
// must hold exactly its own elements afterwards.
func concurrentArrays(round int, s *Stats) error {
	kinds := []string{"U16", "U32", "U64", "I16", "I32", "I64", "Struct", "U32"}
	n := len(kinds)
	errs := make([]error, n)
	var wg sync.WaitGroup
	start := make(chan struct{})
	for g := 0; g < n; g++ {
		g := g
		wg.Add(1)
		go func() {
			defer wg.Done()
			r := sm64{uint64(round*977 + g*13 + 5)}
			<-start
			errs[g] = guard("array construction (one of several concurrent ones)", func() error {
				for rep := 0; rep < 20; rep++ {
					cnt := 1 + r.intn(700)
					var idx []int32
					var raws []uint64
					at := int32(r.intn(130))
					for i := 0; i < cnt; i++ {
						idx = append(idx, at)
						raws = append(raws, r.next())
						at += 1 + int32(r.intn(1+g*3))
					}
					ta, e := buildArray(kinds[g], idx, raws)
					if e != nil {
						if _, ok := e.(*violation); ok {
							return e
						}
						return viol("array-build", "New%s rejected ascending indexes while other arrays were being built: %v", kinds[g], e)
					}
					next := 0
					for i := int32(0); i <= idx[len(idx)-1]; i++ { // within the bitmap span only
						v, ok := ta.get(i)
						if next < len(idx) && idx[next] == i {
							if !ok || !reflect.DeepEqual(v, eltOf(kinds[g], raws[next])) {
								return viol("array-content", "%s array built while other arrays were being built: Get(%d) = (%v,%v), want (%v,true)", kinds[g], i, v, ok, eltOf(kinds[g], raws[next]))
							}
							next++
						} else if ok {
							return viol("array-content", "%s array built while other arrays were being built: Get(%d) = (%v,true) for an absent index", kinds[g], i, v)
						}
					}
				}
				return nil
			})
		}()
	}
	close(start)
	wg.Wait()
	for _, e := range errs {
		if e != nil {
			return e
		}
	}
	s.doneHash(uint64(round)|1<<40, true)
	s.calls(n * 20)
	s.class("concurrent_independent_array_constructions")
	return nil
}

// concurrentIndexes: 6 goroutines build record indexes at the same time.
func concurrentIndexes(round int, s *Stats) error {
	n := 6
	errs := make([]error, n)
	var wg sync.WaitGroup
	start := make(chan struct{})
	for g := 0; g < n; g++ {
		g := g
		wg.Add(1)
		go func() {
			defer wg.Done()
			r := sm64{uint64(round*31 + g*101 + 9)}
			cnt := 300 + r.intn(2500)
			set := map[string]struct{}{}
			for len(set) < cnt {
				set[fmt.Sprintf("g%d/%s/%04x", g, strings.Repeat("p", 1+g+r.intn(4)), r.intn(1<<16))] = struct{}{}
			}
			keys := sortedSet(set)
			block := 1 + g%3*3
			rd := &blockReader{blocks: map[int64][]record{}}
			var items []index.OffsetIndexItem
			for i, k := range keys {
				off := int64(i/block) * 512
				items = append(items, index.OffsetIndexItem{Key: k, Offset: off})
				rd.blocks[off] = append(rd.blocks[off], record{k, fmt.Sprintf("rec-%d-%d", g, i)})
			}
			<-start
			errs[g] = guard("NewSlimIndex (one of several concurrent ones)", func() error {
				si, e := index.NewSlimIndex(items, rd)
				if e != nil {
					return viol("build", "NewSlimIndex rejected sorted records while other indexes were being built: %v", e)
				}
				for i, k := range keys {
					if v, f := si.RangeGet(k); !f || v != fmt.Sprintf("rec-%d-%d", g, i) {
						return viol("index-miss", "an index built while other indexes were being built: RangeGet(%s) = (%q,%v), want its own record", q(k), v, f)
					}
				}
				return nil
			})
		}()
	}
	close(start)
	wg.Wait()
	for _, e := range errs {
		if e != nil {
			return e
		}
	}
	s.doneHash(uint64(round)|1<<41, true)
	s.calls(n)
	s.class("concurrent_independent_index_builds")
	return nil
}

// manyScansInFlight: N (63..200) ScanFrom calls open at the same time on one
// trie, N iterators open at the same time in one goroutine, and ScanFrom nested
// N levels deep in callbacks; each must yield what the same scan yields alone
// (computed on the twin st2).
func manyScansInFlight(st, st2 *trie.SlimTrie, keys []string, sel int, s *Stats) error {
	ns := []int{63, 64, 65, 66, 100, 127, 128, 129, 130, 200}
	n := ns[sel%len(ns)]
	const want = 6
	alone := func(t *trie.SlimTrie, start string) []string {
		var out []string
		t.ScanFrom(start, true, false, func(k, v []byte) bool {
			out = append(out, string(k))
			return len(out) < want
		})
		return out
	}
	starts := make([]string, n)
	base := make([][]string, n)
	if err := guard("ScanFrom alone", func() error {
		for g := range starts {
			starts[g] = keys[(g*7+sel)%len(keys)]
			base[g] = alone(st2, starts[g])
		}
		return nil
	}); err != nil {
		return err
	}
	// (a) n goroutines, all inside their first callback at the same time
	// Odd goroutines are released first: they finish, and each then runs a SECOND,
	// new scan while the even ones are still open inside their first callback;
	// then the even ones continue.
	got := make([][]string, n)
	second := make([][]string, n)
	errs := make([]error, n)
	var arrived int32
	all := make(chan struct{})
	arrive := func() {
		if atomic.AddInt32(&arrived, 1) == int32(n) {
			close(all)
		}
	}
	oddDone := make(chan struct{})
	var oddWG, wg sync.WaitGroup
	for g := 0; g < n; g++ {
		g := g
		wg.Add(1)
		if g%2 == 1 {
			oddWG.Add(1)
		}
		go func() {
			defer wg.Done()
			here := false
			finished := false
			defer func() {
				if !here { // the scan died before its first callback: do not block the others
					arrive()
				}
				if g%2 == 1 && !finished {
					oddWG.Done()
				}
			}()
			errs[g] = guard("ScanFrom with many scans in flight", func() error {
				st.ScanFrom(starts[g], true, false, func(k, v []byte) bool {
					got[g] = append(got[g], string(k))
					if !here {
						here = true
						arrive()
						<-all
						if g%2 == 0 {
							<-oddDone
						}
					}
					return len(got[g]) < want
				})
				if g%2 == 1 {
					second[g] = alone(st, starts[g])
					finished = true
					oddWG.Done()
				}
				return nil
			})
		}()
	}
	go func() { oddWG.Wait(); close(oddDone) }()
	wg.Wait()
	for g := 0; g < n; g++ {
		if errs[g] != nil {
			return errs[g]
		}
		if strings.Join(got[g], "\x00") != strings.Join(base[g], "\x00") {
			return viol("concurrent-differs", "ScanFrom(%s) with %d scans in flight on the same trie yielded %d keys %.120q, alone %.120q", q(starts[g]), n, len(got[g]), got[g], base[g])
		}
		if g%2 == 1 && strings.Join(second[g], "\x00") != strings.Join(base[g], "\x00") {
			return viol("concurrent-differs", "a second ScanFrom(%s), started while %d scans were open on the same trie, yielded %.120q, alone %.120q", q(starts[g]), (n+1)/2, second[g], base[g])
		}
	}
	if err := deepScans(st, starts, base, want); err != nil {
		return err
	}
	s.class(fmt.Sprintf("scans_in_flight=%d", n))
	s.calls(3 * n)
	return nil
}

// deepScans, in ONE goroutine: (b) len(starts) iterators open at the same time,
// stepped round-robin; (c) ScanFrom nested len(starts) levels deep in callbacks,
// with a new sibling scan started at every level after the deeper ones finished.
// base[g] is what the scan from starts[g] yields alone (at most want keys).
func deepScans(st *trie.SlimTrie, starts []string, base [][]string, want int) error {
	n := len(starts)
	alone := func(t *trie.SlimTrie, start string) []string {
		var out []string
		t.ScanFrom(start, true, false, func(k, v []byte) bool {
			out = append(out, string(k))
			return len(out) < want
		})
		return out
	}
	// (b) n iterators open at the same time in one goroutine, stepped round-robin
	if err := guard("many open iterators", func() error {
		its := make([]trie.NextRaw, n)
		for g := range its {
			its[g] = st.NewIter(starts[g], true, false)
		}
		res := make([][]string, n)
		for step := 0; step < want; step++ {
			for g := range its {
				if len(res[g]) == step {
					if k, _ := its[g](); k != nil {
						res[g] = append(res[g], string(k))
					}
				}
			}
		}
		for g := range its {
			if strings.Join(res[g], "\x00") != strings.Join(base[g], "\x00") {
				return viol("iterator-interference", "iterator %d of %d open ones, from %s: yielded %.120q, alone %.120q", g, n, q(starts[g]), res[g], base[g])
			}
		}
		return nil
	}); err != nil {
		return err
	}
	// (c) ScanFrom nested n levels deep: level g scans from starts[g], takes its
	// first key, descends, and continues its own scan afterwards
	nested := make([][]string, n)
	var sibErr error
	var descend func(g int)
	descend = func(g int) {
		if g == n {
			return
		}
		first := true
		st.ScanFrom(starts[g], true, false, func(k, v []byte) bool {
			nested[g] = append(nested[g], string(k))
			if first {
				first = false
				descend(g + 1)
				// a NEW scan started after the deeper ones have finished, while the outer ones are open
				if sib := alone(st, starts[g]); strings.Join(sib, "\x00") != strings.Join(base[g], "\x00") && sibErr == nil {
					sibErr = viol("iterator-interference", "ScanFrom(%s) started inside %d open scans yielded %.120q, alone %.120q", q(starts[g]), g+1, sib, base[g])
				}
			}
			return len(nested[g]) < want
		})
	}
	if err := guard("nested scans", func() error { descend(0); return nil }); err != nil {
		return err
	}
	if sibErr != nil {
		return sibErr
	}
	for g := 0; g < n; g++ {
		if strings.Join(nested[g], "\x00") != strings.Join(base[g], "\x00") {
			return viol("iterator-interference", "ScanFrom(%s) nested at depth %d of %d yielded %.120q, alone %.120q", q(starts[g]), g, n, nested[g], base[g])
		}
	}
	return nil
}

// concurrentLoads: independent Unmarshal calls running at the same time, each on
// its OWN instance and its own copy of the bytes: four goroutines load the valid
// stream of the case (and check the loaded trie on retained keys), two are
// offered the same stream under a foreign version string that the process has
// not seen before (must be rejected as incompatible). Loading is a function of
// the bytes, whatever else is being loaded.
func concurrentLoads(c *Case, fresh *trie.SlimTrie, m *Model, s *Stats) error {
	var stream []byte
	if err := guard("Marshal", func() error {
		b, e := fresh.Marshal()
		if e != nil {
			return viol("marshal", "Marshal failed: %v", e)
		}
		stream = b
		return nil
	}); err != nil {
		return err
	}
	if len(stream) < 32 {
		return nil
	}
	h := uint64(len(stream))*0x9e3779b97f4a7c15 ^ uint64(len(c.Keys))<<32
	for _, k := range c.Keys {
		h = h*1099511628211 ^ uint64(len(k))
		if len(k) > 0 {
			h ^= uint64(k[0])<<8 | uint64(k[len(k)-1])
		}
	}
	foreign := func(i int) []byte {
		b := append([]byte{}, stream...)
		v := fmt.Sprintf("%d.%d.%d", 2+h%7, 100+(h>>8)%9000+uint64(i), (h>>24)%100000)
		for j := 0; j < 16; j++ {
			b[j] = 0
		}
		copy(b[:16], v)
		return b
	}
	const nValid, nForeign = 4, 2
	errs := make([]error, nValid+nForeign)
	var wg sync.WaitGroup
	start := make(chan struct{})
	for g := 0; g < nValid+nForeign; g++ {
		g := g
		wg.Add(1)
		go func() {
			defer wg.Done()
			var buf []byte
			if g < nValid {
				buf = append([]byte{}, stream...)
			} else {
				buf = foreign(g)
			}
			inst, e0 := trie.NewSlimTrie(c.keyOnlyEncoder(), nil, nil)
			if e0 != nil {
				errs[g] = fmt.Errorf("harness: cannot create an empty trie: %v", e0)
				return
			}
			<-start
			errs[g] = guard("Unmarshal (one of several concurrent loads on separate instances)", func() error {
				e := inst.Unmarshal(buf)
				if g >= nValid {
					if e == nil || !isIncompatibleErr(e) {
						return viol("concurrent-load", "a stream with the foreign version %q, loaded while other instances were loading, gave %v; want ErrIncompatible", strings.TrimRight(string(buf[:16]), "\x00"), e)
					}
					return nil
				}
				if e != nil {
					return viol("concurrent-load", "Unmarshal of the trie's own bytes failed while other instances were loading: %v", e)
				}
				for i, k := range m.Keys {
					if i >= 40 && i < len(m.Keys)-10 {
						continue
					}
					if id := inst.GetID(k); id < 0 {
						return viol("concurrent-load", "a trie loaded while other instances were loading does not find %s", q(k))
					}
					if c.HasVals {
						if v, f := inst.Get(k); !f || !valEq(v, m.Want[i]) {
							return viol("concurrent-load", "a trie loaded while other instances were loading: Get(%s) = (%v,%v), want (%v,true)", q(k), v, f, m.Want[i])
						}
					}
				}
				return nil
			})
		}()
	}
	close(start)
	wg.Wait()
	for _, e := range errs {
		if e != nil {
			return e
		}
	}
	s.class("concurrent_loads_on_separate_instances")
	s.calls(nValid + nForeign)
	return nil
}

// concurrentFilterSizes (C17): filter-mode indexes built at the same time in
// different goroutines must have exactly the size they have when built alone
// (and stay within the bound). The key sets share node shapes on purpose: a
// small set with one 10-label node, large sets with thousands of nodes of the
// same label bitmap, and the sets of concurrentBuildCases.
func concurrentFilterSizes(round int, s *Stats) error {
	r := sm64{uint64(round*7919 + 3)}
	labels := []byte{0x00, 0x10, 0x20, 0x30, 0x40, 0x50, 0x60, 0x70, 0x80, 0x90}
	nl := 2 + (round*3)%9 // 2..10 labels per node in this round
	var sets [][]string
	// small sets: one node with nl labels (repeated: they are rebuilt many times)
	small := make([]string, 0, nl)
	for _, l := range labels[:nl] {
		small = append(small, string([]byte{l}))
	}
	sets = append(sets, small)
	// large sets: thousands of nodes with the same label bitmap below random 2-byte prefixes
	for g := 0; g < 3; g++ {
		set := map[string]struct{}{}
		groups := 3000 + r.intn(8000)
		for len(set) < groups*nl {
			p := string([]byte{byte(r.next()), byte(r.next()), byte(g)})
			for _, l := range labels[:nl] {
				set[p+string([]byte{l})] = struct{}{}
			}
		}
		sets = append(sets, sortedSet(set))
	}
	for _, cc := range concurrentBuildCases(round)[:3] {
		sets = append(sets, cc.keys())
	}
	alone := make([]int, len(sets))
	for i, ks := range sets {
		sz, _, err := filterSize(ks)
		if err != nil {
			return err
		}
		if sz > 8*len(ks)+256 {
			return viol("size-bound", "%d keys serialize to %d bytes in filter mode: more than 8 bytes per key + 256", len(ks), sz)
		}
		alone[i] = sz
	}
	errs := make([]error, len(sets))
	var wg sync.WaitGroup
	start := make(chan struct{})
	for i := range sets {
		i := i
		wg.Add(1)
		go func() {
			defer wg.Done()
			reps := 2
			if len(sets[i]) < 100 {
				reps = 400
			}
			<-start
			for rep := 0; rep < reps && errs[i] == nil; rep++ {
				sz, _, err := filterSize(sets[i])
				switch {
				case err != nil:
					errs[i] = err
				case sz != alone[i]:
					errs[i] = viol("size-differs", "%d keys serialize to %d bytes in filter mode when built while other tries are being built, %d bytes when built alone (bound %d)", len(sets[i]), sz, alone[i], 8*len(sets[i])+256)
				}
			}
		}()
	}
	close(start)
	wg.Wait()
	for _, e := range errs {
		if e != nil {
			return e
		}
	}
	s.doneHash(uint64(round)|1<<42, true)
	s.calls(len(sets))
	s.class("concurrent_filter_mode_builds_same_size_as_alone")
	return nil
}

// ---------------------------------------------------------------------------
// Independent readers (round f, C14-f): lookups running at the same time on
// SEPARATE tries, one goroutine per trie. Every answer is a function of that
// trie and the query; whatever other tries are being read in the process must
// not matter (a process-wide scratch object handed out twice does). The oracle
// is each trie's own model; the typed getters are compared with Get.

func independentReaderCases(round int) []*Case {
	modes := []OptSpec{{0, 0, 0, 2}, {0, 0, 2, 0}, {0, 2, 0, 0}, {0, 0, 0, 0}, {1, 0, 0, 2}, {1, 0, 2, 0}, {0, 2, 2, 0}, {1, 0, 0, 0}}
	encs := []string{"I32", "I8", "I64", "I16"}
	var out []*Case
	for g := 0; g < 8; g++ {
		r := sm64{uint64(round*977 + g*13 + 5)}
		n := 200 + r.intn(600)
		set := map[string]struct{}{}
		for len(set) < n {
			// 2 head bytes, a shared run, then a 3-byte tail: leaves store non-empty tails
			p := []byte{byte(r.next()), byte(r.next() & 3)}
			run := strings.Repeat(string([]byte{byte('k' + g)}), 1+r.intn(4))
			for j := 0; j < 2; j++ {
				set[string(p)+run+string([]byte{byte(r.next()), byte(r.next()), byte(j * 77)})] = struct{}{}
			}
		}
		keys := sortedSet(set)
		enc := encs[(g+round)%4]
		w := map[string]int{"I8": 1, "I16": 2, "I32": 4, "I64": 8}[enc]
		c := &Case{Gen: "independent-readers", Keys: hexes(keys), Enc: enc, HasVals: true, Opt: modes[(g+round)%8]}
		if g%2 == 1 {
			c.Load = "reload"
		}
		for i := range keys {
			v := uint64(i/(1+g%3))*0x9e3779b97f4a7c15 + uint64(g) // runs of equal neighbours for g%3 > 0
			c.Vals = append(c.Vals, Hex(leBytes(v, w)))
		}
		out = append(out, c)
	}
	return out
}

func typedGet(st *trie.SlimTrie, enc, x string) (int64, bool) {
	switch enc {
	case "I8":
		a, f := st.GetI8(x)
		return int64(a), f
	case "I16":
		a, f := st.GetI16(x)
		return int64(a), f
	case "I32":
		a, f := st.GetI32(x)
		return int64(a), f
	}
	return st.GetI64(x)
}

func intOf(v interface{}) int64 {
	switch a := v.(type) {
	case int8:
		return int64(a)
	case int16:
		return int64(a)
	case int32:
		return int64(a)
	case int64:
		return a
	}
	return 0
}

// readOwnTrie checks one trie against its model on every API the lookup
// properties speak of (C01, C02, C09, C10, C14).
func readOwnTrie(st *trie.SlimTrie, c *Case, m *Model) error {
	for j, k := range m.AllKeys {
		ri := m.Cover[j]
		if rv, rf := st.RangeGet(k); !rf || !valEq(rv, m.Want[ri]) {
			return viol("range-wrong", "RangeGet(%s) = (%v,%v), want (%v,true)", q(k), rv, rf, m.Want[ri])
		}
		i := m.find(k)
		for _, x := range []string{k, k + "\x00", k[:len(k)-1]} {
			v, f := st.Get(x)
			id := st.GetID(x)
			tv, tf := typedGet(st, c.Enc, x)
			if f != (id >= 0) || f != tf {
				return viol("inconsistent", "Get(%s) found=%v, GetID=%d, Get%s found=%v", q(x), f, id, c.Enc, tf)
			}
			if f && intOf(v) != tv || !f && tv != 0 {
				return viol("typed-getter", "Get%s(%s) = %d but Get = %v (found=%v)", c.Enc, q(x), tv, v, f)
			}
			if f {
				if rv, rf := st.RangeGet(x); !rf || !valEq(rv, v) {
					return viol("inconsistent", "Get(%s) = %v but RangeGet = (%v,%v)", q(x), v, rv, rf)
				}
			}
		}
		if i < 0 {
			continue
		}
		if v, f := st.Get(k); !f || !valEq(v, m.Want[i]) {
			return viol("wrong-value", "Get(%s) = (%v,%v), want (%v,true)", q(k), v, f, m.Want[i])
		}
		l, e, r := st.Search(k)
		if !valEq(l, m.want(i-1)) || !valEq(e, m.Want[i]) || !valEq(r, m.want(m.higher(k))) {
			return viol("search", "Search(%s) = (%v,%v,%v), want (%v,%v,%v)", q(k), l, e, r, m.want(i-1), m.Want[i], m.want(m.higher(k)))
		}
	}
	return nil
}

func independentReaders(round int, s *Stats) error {
	cases := independentReaderCases(round)
	tries := make([]*trie.SlimTrie, len(cases))
	models := make([]*Model, len(cases))
	for i, c := range cases {
		_, st, err := c.load()
		if err != nil {
			return err
		}
		tries[i], models[i] = st, newModel(c)
	}
	// even rounds: the concurrent phase is the first use of these instances; odd
	// rounds: every trie has answered all its queries once before
	if round%2 == 1 {
		for i, c := range cases {
			i, c := i, c
			if err := guard("lookup on an own trie (sequential)", func() error { return readOwnTrie(tries[i], c, models[i]) }); err != nil {
				return err
			}
		}
	}
	errs := make([]error, len(cases))
	renders := make([][]string, len(cases))
	var wg sync.WaitGroup
	start := make(chan struct{})
	for i := range cases {
		i := i
		wg.Add(1)
		go func() {
			defer wg.Done()
			<-start
			for rep := 0; rep < 3 && errs[i] == nil; rep++ {
				errs[i] = guard("lookup or String() on a trie that only this goroutine uses, while other goroutines read their own tries", func() error {
					if err := readOwnTrie(tries[i], cases[i], models[i]); err != nil {
						return err
					}
					renders[i] = append(renders[i], tries[i].String())
					return nil
				})
			}
		}()
	}
	close(start)
	wg.Wait()
	for _, e := range errs {
		if e != nil {
			return e
		}
	}
	// String() is a function of the trie: the renderings made while other goroutines
	// rendered their own tries must equal the one made now, alone (C19-h)
	for i := range cases {
		i := i
		var alone string
		if err := guard("String()", func() error { alone = tries[i].String(); return nil }); err != nil {
			return err
		}
		for _, r := range renders[i] {
			if r != alone {
				return viol("render", "String() of a trie that only one goroutine uses differs from its rendering alone when other goroutines render their own tries at the same time (%d vs %d bytes)", len(r), len(alone))
			}
		}
	}
	s.doneHash(uint64(round)+1<<40, true)
	s.calls(len(cases) * 3 * 12 * 400)
	s.class("independent_readers")
	return nil
}

// concurrentArrayReaders (round f, C16-f): a built array is a value; reading it
// has no side effects. Arrays of every kind (typed, generic with the library's
// encoder, generic with a configured encoder, loaded into array.NewEmpty-style
// targets) are built sequentially, then 8 goroutines read ALL of them at the
// same time through the typed/generic accessor and the raw-bytes accessor;
// every answer is compared with the model.
func concurrentArrayReaders(round int, s *Stats) error {
	kinds := []string{"Struct", "GenI32", "GenU32BE", "GenStructBE", "GenBlank", "U32", "I64", "GenNamedBE"}
	type built struct {
		kind string
		idx  []int32
		raws []uint64
		get  func(int32) (interface{}, bool)
		base *array.Base
	}
	var arrs []built
	for g, kind := range kinds {
		r := sm64{uint64(round*7793 + g*17 + 3)}
		cnt := 50 + r.intn(400)
		var idx []int32
		var raws []uint64
		at := int32(r.intn(70))
		for i := 0; i < cnt; i++ {
			idx = append(idx, at)
			raws = append(raws, r.next())
			at += 1 + int32(r.intn(1+g*2))
		}
		ta, e := buildArray(kind, idx, raws)
		if e != nil {
			if _, ok := e.(*violation); ok {
				return e
			}
			return viol("array-build", "New%s rejected ascending indexes: %v", kind, e)
		}
		b := built{kind, idx, raws, ta.get, ta.base}
		if (g+round)%2 == 1 && ta.newEmpty != nil {
			// the reloaded twin is what the readers share
			var lerr error
			if err := guard("array round trip", func() error {
				buf, e := proto.Marshal(ta.msg)
				if e != nil {
					lerr = e
					return nil
				}
				msg, base, get := ta.newEmpty()
				if e := proto.Unmarshal(buf, msg); e != nil {
					lerr = e
					return nil
				}
				b.get, b.base = get, base
				return nil
			}); err != nil {
				return err
			}
			if lerr != nil {
				return viol("array-roundtrip", "%s array does not survive a marshal round trip: %v", kind, lerr)
			}
		}
		arrs = append(arrs, b)
	}
	errs := make([]error, 8)
	var wg sync.WaitGroup
	start := make(chan struct{})
	for w := 0; w < 8; w++ {
		w := w
		wg.Add(1)
		go func() {
			defer wg.Done()
			<-start
			errs[w] = guard("reading a built array while other goroutines read it too", func() error {
				for rep := 0; rep < 2; rep++ {
					for ai := range arrs {
						a := arrs[(ai+w)%len(arrs)]
						next := 0
						for i := int32(0); i <= a.idx[len(a.idx)-1]; i++ {
							v, ok := a.get(i)
							if next < len(a.idx) && a.idx[next] == i {
								want := eltOf(a.kind, a.raws[next])
								if !ok || !reflect.DeepEqual(v, want) {
									return viol("array-get", "%s array read by 8 goroutines at once: Get(%d) = (%v,%v), want (%v,true)", a.kind, i, v, ok, want)
								}
								if raw, rok := a.base.GetBytes(i, len(eltBytes(a.kind, a.raws[next]))); !rok || !bytes.Equal(raw, eltBytes(a.kind, a.raws[next])) {
									return viol("array-get", "%s array read by 8 goroutines at once: GetBytes(%d) = (%x,%v), want (%x,true)", a.kind, i, raw, rok, eltBytes(a.kind, a.raws[next]))
								}
								next++
							} else if ok {
								return viol("array-get", "%s array read by 8 goroutines at once: Get(%d) = (%v,true) for an absent index", a.kind, i, v)
							}
						}
					}
				}
				return nil
			})
		}()
	}
	close(start)
	wg.Wait()
	for _, e := range errs {
		if e != nil {
			return e
		}
	}
	s.doneHash(uint64(round)|1<<41, true)
	s.calls(8 * 2 * len(arrs) * 300)
	s.class("concurrent_readers_of_built_arrays")
	return nil
}
