#!/usr/bin/env python3
"""usage: tools/mkround.py <round-letter> Cxx [Cyy ...]

Prepares one seeded-change assignment per property for an independent sub-agent:
a scratch git worktree of /repo HEAD under /tmp/mut/<Cxx>-<round>/wt and a
PROMPT.txt next to it. The prompt contains ONLY the text of the property (as in
properties.jsonl), the mechanics of the assignment, and one-line summaries of
the changes earlier sub-agents already made for that property (so that a new
change is of a different kind). Nothing about /verif's checks, generators or
oracles is given away.
"""
import json, os, subprocess, sys, glob

VERIF = os.path.dirname(os.path.dirname(os.path.abspath(__file__)))
rnd = sys.argv[1]
ids = sys.argv[2:]
props = {}
for l in open(os.path.join(VERIF, "properties.jsonl")):
    p = json.loads(l)
    props[p["id"]] = p

FLAVOURS = {
    0: "a particular multi-step sequence of operations on one or several objects (a history), or state that survives between calls",
    1: "an unusual but legal input: a size, alignment, count or byte value that crosses an internal boundary of a representation",
    2: "two cooperating sites that each look fine alone (a writer and a reader that agree on the common case and disagree on a rare one)",
    3: "a particular interleaving of goroutines, or process-wide state shared between otherwise independent objects",
    4: "a configuration, encoder, platform (32-bit int) or option spelling that ordinary use does not combine",
}

for n, pid in enumerate(ids):
    d = "/tmp/mut/%s-%s" % (pid, rnd)
    os.makedirs(d, exist_ok=True)
    wt = d + "/wt"
    if not os.path.exists(wt):
        subprocess.check_call(["git", "-C", "/repo", "worktree", "add", "--detach", wt, "HEAD"],
                              stdout=subprocess.DEVNULL, stderr=subprocess.DEVNULL)
    earlier = []
    for mp in sorted(glob.glob(os.path.join(VERIF, "seeded", pid + "-*", "meta.json"))):
        m = json.load(open(mp))
        s = (m.get("summary") or "").replace("\n", " ")
        earlier.append("- " + s[:330] + ("…" if len(s) > 330 else ""))
    p = props[pid]
    flavour = FLAVOURS[(n + ord(rnd)) % len(FLAVOURS)]
    prompt = f"""You are helping to evaluate a verification framework by writing ONE realistic, subtle
regression for the Go library openacid/slim (a static succinct trie index, "SlimTrie").

Work ONLY inside the scratch git worktree {wt} (a checkout of the library at its
current HEAD) and the directory {d}. Do not read or write /verif or /repo. Do not
commit anything. There is no network; every shell call needs
    export GOFLAGS=-mod=mod GOPROXY=off GOSUMDB=off GOTOOLCHAIN=local
(if `go` rewrites go.mod/go.sum in the worktree, restore them with `git checkout -- go.mod go.sum`).

The property the library promises (this is all you are given about what will be checked):

--------------------------------------------------------------------------
id: {pid}
title: {p['title']}
statement: {p['statement']}
quantifier: {json.dumps(p.get('quantifier'), ensure_ascii=False)}
anchors: {json.dumps(p.get('anchors'), ensure_ascii=False)}
--------------------------------------------------------------------------

Your task: change the library's NON-TEST source in {wt} so that this property is
violated for SOME input / history / schedule / configuration, while
  1. the library still compiles (`go build ./...`),
  2. the WHOLE existing test suite still passes unedited
     (`go test -vet=off -count=1 -timeout 25m ./...` in {wt}; takes about 5 minutes), and
  3. the change looks like something a maintainer could plausibly commit (an
     optimisation, refactor, clean-up, hardening or feature), not sabotage.

The violation must need something SPECIFIC to manifest — ordinary use must not expose it
at once. Preferred kind for this assignment: {flavour}.
Other acceptable kinds: a particular interleaving; a fault at a particular point; a
multi-step sequence of operations; an unusual input; two cooperating sites that each look
fine alone. A change that breaks on the first random trie anybody builds is NOT wanted. But
the violation must be a real, deterministic-or-demonstrable breach of the property text
above (not of some stronger property the text does not state), reachable through the
public API within the documented limits.

Earlier assignments for this property already produced the following changes; yours must be
of a DIFFERENT kind (different mechanism, different site, different trigger):
{chr(10).join(earlier) if earlier else '- (none yet)'}

Deliver, in {d}:
  * patch.diff      — `git -C {wt} diff` of your change (non-test files only; must apply
                      to a clean checkout with `git apply`).
  * demo/zz_demo_test.go — a Go test file (package of the directory it will be copied to,
                      test names starting with TestZZDemo) that FAILS with your change and
                      PASSES without it, using only the public API (or package internals if
                      it sits in the package). It must run in < 2 minutes and < 4 GB.
  * meta.json       — {{"property": "{pid} — {p['title']}", "files_changed": [...],
                      "summary": "<what you changed and why it looks plausible, and what the slip is>",
                      "needs_to_manifest": "<exactly what input/history/schedule/config is needed, and what does NOT expose it>",
                      "demo_file": "{d}/demo/zz_demo_test.go",
                      "demo_dest": "<path relative to the repo root where the demo is copied, e.g. trie/zz_demo_test.go>"}}

Before you finish, verify all of this yourself: apply-ability of patch.diff on a clean tree,
the full suite passing with the change, the demo failing with the change and passing without it.
NEVER use `git stash`: the stash is shared by all worktrees of this repository and other people
work in sibling worktrees at the same time. To get a clean tree use `git apply -R patch.diff`
(and `git apply patch.diff` to put the change back), or `git checkout -- .` followed by
`git apply patch.diff`. Leave the
worktree with your change applied and the demo file NOT inside it (keep it only under {d}/demo).
Report in your final message: a three-line description, and the outcome of each verification step.
"""
    open(d + "/PROMPT.txt", "w").write(prompt)
    print(d)
