#!/bin/bash
# usage: [DEMO_ENV="GOARCH=386"] tools/confirm_seeded.sh /tmp/mut/<name> <seeded-id>
# Confirms a sub-agent's seeded change independently: (1) patch applies to a clean checkout of /repo HEAD,
# (2) the existing suite passes with it, (3) the demo fails with it and passes without it.
# On success stores patch.diff, the demo and meta.json under /verif/seeded/<seeded-id>/ .
set -u
src=$1; id=$2
export GOFLAGS=-mod=mod GOPROXY=off GOSUMDB=off GOTOOLCHAIN=local
w=$(mktemp -d /tmp/verif-confirm.XXXXXX)
git -C /repo worktree add --detach $w/wt HEAD >/dev/null 2>&1 || { echo "cannot create worktree"; exit 2; }
cleanup() { git -C /repo worktree remove --force $w/wt >/dev/null 2>&1; rm -rf $w; }
trap cleanup EXIT
cd $w/wt
git apply --whitespace=nowarn $src/patch.diff || { echo "RESULT $id: patch does not apply"; exit 1; }
go build ./... || { echo "RESULT $id: does not compile"; exit 1; }
demo_file=$(python3 -c "import json;print(json.load(open('$src/meta.json'))['demo_file'])")
demo_dest=$(python3 -c "import json;print(json.load(open('$src/meta.json'))['demo_dest'])")
[ -f "$demo_file" ] || demo_file=$(ls $src/demo/*_test.go | head -1)
pkg=./$(dirname $demo_dest)/
run_re=$(grep -o '^func Test[A-Za-z0-9_]*' $demo_file | sed 's/func //' | paste -sd'|')
# suite with the change
go test -vet=off -count=1 -timeout 25m ./... > $w/suite.log 2>&1
suite_rc=$?
git checkout -- go.mod go.sum 2>/dev/null
cp $demo_file $demo_dest
env ${DEMO_ENV:-_X=1} go test -vet=off -count=1 -timeout ${DEMO_TIMEOUT:-10m} -run "^($run_re)\$" $pkg > $w/demo_with.log 2>&1
with_rc=$?
git apply -R --whitespace=nowarn $src/patch.diff
env ${DEMO_ENV:-_X=1} go test -vet=off -count=1 -timeout ${DEMO_TIMEOUT:-10m} -run "^($run_re)\$" $pkg > $w/demo_without.log 2>&1
without_rc=$?
echo "RESULT $id: suite_rc=$suite_rc demo_with_change_rc=$with_rc demo_without_change_rc=$without_rc"
grep -v "^ok\|no test files" $w/suite.log | head -5
if [ $suite_rc -eq 0 ] && [ $with_rc -ne 0 ] && [ $without_rc -eq 0 ]; then
  mkdir -p /verif/seeded/$id
  cp $src/patch.diff /verif/seeded/$id/patch.diff
  cp $demo_file /verif/seeded/$id/$(basename $demo_file)
  python3 - "$src/meta.json" "/verif/seeded/$id/meta.json" "$id" "$demo_dest" "$run_re" <<'PY'
import json, sys
m = json.load(open(sys.argv[1]))
out = {
  "id": sys.argv[3],
  "property": m.get("property"),
  "files_changed": m.get("files_changed"),
  "summary": m.get("summary"),
  "needs_to_manifest": m.get("needs_to_manifest"),
  "demo_dest": sys.argv[4],
  "demo_run": "go test -vet=off -count=1 -run '^(%s)$' ./%s/" % (sys.argv[5], sys.argv[4].rsplit('/',1)[0]),
  "author": "independent sub-agent given only the property text and a scratch worktree",
  "demo_env": __import__("os").environ.get("DEMO_ENV", ""),
  "confirmed_by_me": "tools/confirm_seeded.sh: patch applied to a clean worktree of /repo HEAD; `go test -vet=off -count=1 ./...` all packages ok with the change; demo FAILS with the change and PASSES without it",
}
json.dump(out, open(sys.argv[2], "w"), indent=1)
PY
  echo "KEPT /verif/seeded/$id"
else
  echo "NOT KEPT $id"; tail -5 $w/demo_with.log; tail -5 $w/demo_without.log
fi
