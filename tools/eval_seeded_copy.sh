#!/bin/bash
# usage: tools/eval_seeded_copy.sh [id ...]
# Like tools/eval_seeded.sh, but the seeded change is applied to a scratch COPY of /repo
# (VERIF_REPO=<copy>), not to /repo itself — for use while something else (a thorough
# run) is reading /repo. Records the outcome in seeded/<id>/meta.json ("my_checks") and
# seeded/RESULTS.tsv. Evidence and replays of such runs go to .build/alt-*.
set -u
cd /verif
ids=${@:-$(ls seeded | grep -v RESULTS)}
for id in $ids; do
  d=seeded/$id
  [ -f $d/patch.diff ] || continue
  prop=${id%%-*}
  [ -f $d/target_override ] && prop=$(cat $d/target_override)
  tier=quick
  [ -f $d/tier_override ] && tier=$(cat $d/tier_override)
  w=$(mktemp -d /tmp/verif-evalcopy.XXXXXX)
  rsync -a --exclude .git /repo/ $w/repo/
  ( cd $w/repo && git init -q . >/dev/null 2>&1 && git apply --whitespace=nowarn /verif/$d/patch.diff && rm -rf .git ) || { echo "$id: patch does not apply"; rm -rf $w; continue; }
  out=$(VERIF_REPO=$w/repo ./check $prop --tier $tier 2>&1); rc=$?
  rm -rf $w
  detail=$(echo "$out" | grep -a "^DETAIL" | head -1 | cut -c1-300 | sed "s#$w/repo#/repo#g")
  [ "$tier" = quick ] || prop="$prop($tier)"
  echo -e "$id\t$prop\trc=$rc\t$detail" | tee -a seeded/RESULTS.tsv.new
  python3 - "$d/meta.json" "$prop" "$rc" "$detail" <<'PY'
import json, sys
p, prop, rc, detail = sys.argv[1:5]
m = json.load(open(p))
m["my_checks"] = {"applied_to": "a scratch copy of /repo (VERIF_REPO), because /repo itself was in use", "command": "./check %s --tier %s" % (prop.split("(")[0], "thorough" if "(" in prop else "quick"),
                  "exit_code": int(rc), "caught": int(rc) == 1, "first_detail": detail}
json.dump(m, open(p, "w"), indent=1)
PY
done
if [ -f seeded/RESULTS.tsv.new ]; then
  python3 - <<'PY'
import os
old = {}
if os.path.exists("seeded/RESULTS.tsv"):
    for l in open("seeded/RESULTS.tsv"):
        if l.strip():
            old[l.split("\t")[0]] = l
for l in open("seeded/RESULTS.tsv.new"):
    if l.strip():
        old[l.split("\t")[0]] = l
open("seeded/RESULTS.tsv", "w").write("".join(old[k] for k in sorted(old)))
os.remove("seeded/RESULTS.tsv.new")
PY
fi
