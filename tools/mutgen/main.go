// mutgen enumerates first-order mutants of a Go source file (standard library only).
//
//	mutgen list <file.go>            prints one JSON object per mutant: {"n":…, "line":…, "kind":…, "old":…, "new":…, "func":…}
//	mutgen apply <file.go> <n> <out> writes the n-th mutant of file.go to out
//
// Operators: relational boundary and negation, arithmetic/bitwise/shift/logical
// operator swaps, integer literal ±1, ++/-- swap, +=/-= swap, true/false swap,
// negated if-condition, deletion of a plain statement (assignment, call, inc/dec),
// `continue`/`break` swap. Mutants that do not compile are discarded by the caller.
package main

import (
	"encoding/json"
	"fmt"
	"go/ast"
	"go/parser"
	"go/token"
	"os"
	"strconv"
)

type edit struct {
	N          int    `json:"n"`
	Line       int    `json:"line"`
	Kind       string `json:"kind"`
	Old        string `json:"old"`
	New        string `json:"new"`
	Func       string `json:"func"`
	start, end int
}

var binSwap = map[token.Token][]string{
	token.LSS:     {"<=", ">"},
	token.LEQ:     {"<", ">="},
	token.GTR:     {">=", "<"},
	token.GEQ:     {">", "<="},
	token.EQL:     {"!="},
	token.NEQ:     {"=="},
	token.ADD:     {"-"},
	token.SUB:     {"+"},
	token.MUL:     {"+"},
	token.QUO:     {"*"},
	token.REM:     {"/"},
	token.AND:     {"|"},
	token.OR:      {"&", "^"},
	token.XOR:     {"|"},
	token.SHL:     {">>"},
	token.SHR:     {"<<"},
	token.AND_NOT: {"&"},
	token.LAND:    {"||"},
	token.LOR:     {"&&"},
}

var assignSwap = map[token.Token]string{
	token.ADD_ASSIGN: "-=",
	token.SUB_ASSIGN: "+=",
	token.OR_ASSIGN:  "&=",
	token.AND_ASSIGN: "|=",
	token.SHL_ASSIGN: ">>=",
	token.SHR_ASSIGN: "<<=",
}

func collect(path string) ([]byte, []edit) {
	src, err := os.ReadFile(path)
	if err != nil {
		panic(err)
	}
	fset := token.NewFileSet()
	f, err := parser.ParseFile(fset, path, src, 0)
	if err != nil {
		panic(err)
	}
	var edits []edit
	off := func(p token.Pos) int { return fset.Position(p).Offset }
	for _, decl := range f.Decls {
		fd, ok := decl.(*ast.FuncDecl)
		if !ok || fd.Body == nil {
			continue
		}
		fname := fd.Name.Name
		add := func(kind string, s, e int, repl string) {
			edits = append(edits, edit{Line: fset.Position(fset.File(fd.Pos()).Pos(s)).Line, Kind: kind,
				Old: string(src[s:e]), New: repl, Func: fname, start: s, end: e})
		}
		inMust := 0
		var walk func(n ast.Node) bool
		walk = func(n ast.Node) bool {
			if n == nil {
				return true
			}
			switch x := n.(type) {
			case *ast.CallExpr:
				// must.Be.* assertions are compiled out; panic("…") messages are not interesting
				if se, ok := x.Fun.(*ast.SelectorExpr); ok {
					if inner, ok := se.X.(*ast.SelectorExpr); ok {
						if id, ok := inner.X.(*ast.Ident); ok && id.Name == "must" {
							inMust++
							for _, a := range x.Args {
								ast.Inspect(a, walk)
							}
							inMust--
							return false
						}
					}
				}
			case *ast.BinaryExpr:
				if inMust == 0 {
					for _, r := range binSwap[x.Op] {
						s := off(x.OpPos)
						add("binop", s, s+len(x.Op.String()), r)
					}
				}
			case *ast.BasicLit:
				if inMust == 0 && x.Kind == token.INT {
					v, err := strconv.ParseInt(x.Value, 0, 64)
					if err == nil {
						s := off(x.Pos())
						add("lit", s, s+len(x.Value), strconv.FormatInt(v+1, 10))
						if v > 0 {
							add("lit", s, s+len(x.Value), strconv.FormatInt(v-1, 10))
						}
					}
				}
			case *ast.IncDecStmt:
				s := off(x.TokPos)
				if x.Tok == token.INC {
					add("incdec", s, s+2, "--")
				} else {
					add("incdec", s, s+2, "++")
				}
			case *ast.AssignStmt:
				if r, ok := assignSwap[x.Tok]; ok {
					s := off(x.TokPos)
					add("assignop", s, s+len(x.Tok.String()), r)
				}
			case *ast.Ident:
				if inMust == 0 && x.Obj == nil {
					if x.Name == "true" {
						add("bool", off(x.Pos()), off(x.End()), "false")
					} else if x.Name == "false" {
						add("bool", off(x.Pos()), off(x.End()), "true")
					}
				}
			case *ast.IfStmt:
				if x.Cond != nil {
					s, e := off(x.Cond.Pos()), off(x.Cond.End())
					add("negcond", s, e, "!("+string(src[s:e])+")")
				}
			case *ast.BranchStmt:
				if x.Label == nil {
					s, e := off(x.Pos()), off(x.End())
					if x.Tok == token.CONTINUE {
						add("branch", s, e, "break")
					} else if x.Tok == token.BREAK {
						add("branch", s, e, "continue")
					}
				}
			case *ast.BlockStmt:
				for _, st := range x.List {
					switch y := st.(type) {
					case *ast.AssignStmt:
						if y.Tok != token.DEFINE {
							add("delstmt", off(y.Pos()), off(y.End()), "{}")
						}
					case *ast.ExprStmt:
						add("delstmt", off(y.Pos()), off(y.End()), "{}")
					case *ast.IncDecStmt:
						add("delstmt", off(y.Pos()), off(y.End()), "{}")
					}
				}
			}
			return true
		}
		ast.Inspect(fd.Body, walk)
	}
	for i := range edits {
		edits[i].N = i
	}
	return src, edits
}

func main() {
	if len(os.Args) < 3 {
		fmt.Fprintln(os.Stderr, "usage: mutgen list <file> | mutgen apply <file> <n> <out>")
		os.Exit(2)
	}
	src, edits := collect(os.Args[2])
	switch os.Args[1] {
	case "list":
		enc := json.NewEncoder(os.Stdout)
		for _, e := range edits {
			enc.Encode(e)
		}
	case "apply":
		n, _ := strconv.Atoi(os.Args[3])
		e := edits[n]
		out := append([]byte{}, src[:e.start]...)
		out = append(out, e.New...)
		out = append(out, src[e.end:]...)
		if err := os.WriteFile(os.Args[4], out, 0644); err != nil {
			panic(err)
		}
	}
}
