module mutgen

go 1.23
