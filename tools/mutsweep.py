#!/usr/bin/env python3
"""Systematic first-order mutation sweep over openacid/slim's non-generated sources.

  tools/mutsweep.py stage1 [--workers 8] [--files f1,f2] [--stride k] [--out DIR]
      every mutant of tools/mutgen is applied to a scratch copy of /repo (never to
      /repo), compiled, and a SMOKE version of the mapped checks is run on it (the
      main generated-input test of each mapped property, 300 cases, one fixed seed).
      Outcome per mutant: nocompile | killed (VIOLATION line) | timeout | survived.
  tools/mutsweep.py stage1b [--workers 8] [--out DIR]
      survivors of stage 1 again with 4000 cases per mapped property and another seed.
  tools/mutsweep.py stage2 [--workers 4] [--out DIR]
      survivors of stage 1 are run through the real quick checks of the mapped
      properties (VERIF_REPO=<copy> ./check <ID> --tier quick).
  tools/mutsweep.py stage3 [--workers 4] [--out DIR]
      survivors of stage 2: does the repository's own test suite of that package
      kill the mutant?  (suite-killed mutants are outside "passes the existing
      tests", the rest is triaged by hand: equivalent mutant or hole.)

Scratch copies live under /tmp/mutsweep and are removed at the end of each stage.
Results: DIR/stage{1,2,3}.jsonl (default DIR=/root/mutsweep).
"""
import json, os, subprocess, sys, shutil, threading, queue, time, glob, re

VERIF = os.path.dirname(os.path.dirname(os.path.abspath(__file__)))
ENV = dict(os.environ, GOFLAGS="-mod=mod", GOPROXY="off", GOSUMDB="off", GOTOOLCHAIN="local")
MUTGEN = os.path.join(VERIF, ".build", "bin", "mutgen")

Q = "C01 C02 C03 C09 C10 C13 C06 C14".split()
MAP = {
    "trie/slimtrie_query.go": Q,
    # trie/slimtrie_getnode.go holds only getIthInner, which nothing calls (0% coverage): not swept
    "trie/slimtrie_vlen_array.go": Q + ["C04", "C19"],
    "trie/slimtrie_vars.go": Q + ["C04", "C19"],
    "trie/bitmap.go": Q + ["C05"],
    "trie/slimtrie_getint.go": ["C14"],
    "trie/slimtrie_create.go": "C01 C02 C03 C04 C05 C08 C13 C17 C19 C20".split(),
    "trie/slimtrie.go": "C01 C02 C03 C04 C05 C08 C13 C17 C19 C20".split(),
    "trie/slimtrie_scan.go": "C04 C05 C06".split(),
    "trie/slimtrie_marshal.go": "C05 C06 C07 C18 C20".split(),
    "trie/slimtrie_level.go": "C18 C05".split(),
    "trie/slimtrie_stat.go": "C18 C05".split(),
    "trie/slimtrie_str.go": ["C19"],
    "array/array.go": "C16 C06".split(),
    "array/base.go": "C16 C06".split(),
    "array/int.go": "C16 C06".split(),
    "encode/encoder.go": "C15 C16".split(),
    "encode/int.go": "C15 C01 C14".split(),
    "encode/int8.go": "C15 C14".split(),
    "encode/nativeint.go": "C15 C01".split(),
    "encode/type_encoder.go": "C15 C16".split(),
    "encode/bytes.go": "C15".split(),
    "index/index.go": ["C12"],
}

def sh(cmd, cwd=None, timeout=None, env=None):
    try:
        r = subprocess.run(cmd, cwd=cwd, env=env or ENV, timeout=timeout, stdout=subprocess.PIPE,
                           stderr=subprocess.STDOUT, text=True, errors="replace")
        return r.returncode, r.stdout
    except subprocess.TimeoutExpired as e:
        return -9, (e.stdout or b"").decode(errors="replace") if isinstance(e.stdout, bytes) else (e.stdout or "")

def ensure_mutgen():
    os.makedirs(os.path.dirname(MUTGEN), exist_ok=True)
    rc, out = sh(["go", "build", "-o", MUTGEN, "."], cwd=os.path.join(VERIF, "tools", "mutgen"))
    if rc != 0:
        sys.exit("mutgen build failed: " + out)

def make_copy(k):
    d = "/tmp/mutsweep/%d/w%d" % (os.getpid(), k)
    shutil.rmtree(d, ignore_errors=True)
    os.makedirs(d)
    subprocess.check_call(["rsync", "-a", "--exclude", ".git", "/repo/", d + "/repo/"])
    # modfile as the driver generates it
    base = sorted(glob.glob(os.path.join(VERIF, ".build", "go.*.mod")))
    src = None
    for b in base:
        if "=> /repo\n" in open(b).read():
            src = b
    if not src:
        sys.exit("run ./check --setup first")
    text = open(src).read().replace("=> /repo\n", "=> %s/repo\n" % d)
    open(d + "/go.mod", "w").write(text)
    shutil.copy(src[:-4] + ".sum", d + "/go.sum")
    return d

def list_mutants(files, stride):
    muts = []
    for f in files:
        rc, out = sh([MUTGEN, "list", "/repo/" + f])
        for i, l in enumerate(out.splitlines()):
            m = json.loads(l)
            m["file"] = f
            if stride > 1 and i % stride != 0:
                continue
            muts.append(m)
    return muts

def apply(d, m):
    sh([MUTGEN, "apply", "/repo/" + m["file"], str(m["n"]), d + "/repo/" + m["file"]])

def revert(d, m):
    shutil.copy("/repo/" + m["file"], d + "/repo/" + m["file"])

def stage1_one(d, m, cases=300, shrink="1s", tmo=90):
    apply(d, m)
    try:
        rc, out = sh(["go", "build", "./..."], cwd=d + "/repo", timeout=300)
        if rc != 0:
            return "nocompile", ""
        binp = d + "/smoke.test"
        rc, out = sh(["go", "test", "-c", "-vet=off", "-modfile=" + d + "/go.mod", "-o", binp, "./props"],
                     cwd=os.path.join(VERIF, "harness"), timeout=600)
        if rc != 0:
            return "nocompile", out[-300:]
        props = MAP[m["file"]]
        env = dict(ENV, VERIF_TIER="quick", VERIF_SEED="1", VERIF_REPO=d + "/repo", VERIF_REPLAY_DIR=d + "/replays",
                   VERIF_STATS=d + "/stats.json")
        timeouts = []
        for p in props:
            rc, out = sh([binp, "-test.run", "^Test%s$" % p, "-rapid.checks=%d" % cases, "-rapid.seed=%d" % (7 + cases), "-rapid.nofailfile",
                          "-rapid.shrinktime=" + shrink, "-test.timeout=%ds" % tmo], cwd=d, timeout=tmo + 30, env=env)
            if "VIOLATION property=" in out:
                det = [l for l in out.splitlines() if l.startswith("DETAIL")]
                return "killed", p + ": " + (det[0][:200] if det else "")
            if rc != 0:
                if rc == -9 or "test timed out" in out:
                    timeouts.append(p)
                    break  # a hanging mutant hangs everywhere; stage 2 looks at it again
                else:
                    return "killed-other", p + ": " + out[-300:]
        if timeouts:
            return "timeout", ",".join(timeouts)
        return "survived", ""
    finally:
        revert(d, m)
        shutil.rmtree(d + "/replays", ignore_errors=True)

def stage1b_one(d, m):
    return stage1_one(d, m, cases=4000, tmo=400)

def stage2_one(d, m):
    apply(d, m)
    try:
        props = m.get("props") or MAP[m["file"]]
        env = dict(ENV, VERIF_REPO=d + "/repo", VERIF_SEED="1")
        inconc = []
        for p in props:
            rc, out = sh([os.path.join(VERIF, "check"), p, "--tier", "quick"], cwd=VERIF, timeout=1500, env=env)
            if rc == 1:
                det = [l for l in out.splitlines() if l.startswith("DETAIL")]
                return "killed", p + ": " + (det[0][:200] if det else "")
            if rc != 0:
                inconc.append(p)
        if inconc:
            return "inconclusive", ",".join(inconc)
        return "survived", ""
    finally:
        revert(d, m)

def stage3_one(d, m):
    apply(d, m)
    try:
        pkg = "./" + os.path.dirname(m["file"]) + "/"
        rc, out = sh(["go", "test", "-vet=off", "-count=1", "-timeout", "20m", pkg], cwd=d + "/repo", timeout=1500)
        sh(["git", "checkout", "--", "go.mod", "go.sum"], cwd=d + "/repo")
        if rc == 0:
            return "suite-passes", ""
        fails = [l for l in out.splitlines() if l.startswith("--- FAIL")]
        return "suite-kills", (fails[0] if fails else out[-200:])
    finally:
        revert(d, m)

def run_stage(fn, muts, workers, outpath, done):
    q = queue.Queue()
    for m in muts:
        key = "%s#%d" % (m["file"], m["n"])
        if key not in done:
            q.put(m)
    lock = threading.Lock()
    total = q.qsize()
    cnt = [0]
    def work(k):
        d = make_copy(k)
        while True:
            try:
                m = q.get_nowait()
            except queue.Empty:
                break
            t0 = time.time()
            try:
                res, det = fn(d, m)
            except Exception as e:  # infrastructure, keep going
                res, det = "error", repr(e)
            with lock:
                cnt[0] += 1
                rec = dict(m, result=res, detail=det, secs=round(time.time() - t0, 1))
                with open(outpath, "a") as f:
                    f.write(json.dumps(rec) + "\n")
                if cnt[0] % 20 == 0:
                    print("%d/%d" % (cnt[0], total), flush=True)
        shutil.rmtree(d, ignore_errors=True)
    ts = [threading.Thread(target=work, args=(k,)) for k in range(workers)]
    for t in ts: t.start()
    for t in ts: t.join()

def load(path):
    recs = {}
    if os.path.exists(path):
        for l in open(path):
            r = json.loads(l)
            recs["%s#%d" % (r["file"], r["n"])] = r
    return recs

def main():
    a = sys.argv[1:]
    stage = a[0]
    workers, files, stride, out = 8, list(MAP), 1, "/root/mutsweep"
    i = 1
    while i < len(a):
        if a[i] == "--workers": workers = int(a[i + 1])
        elif a[i] == "--files": files = a[i + 1].split(",")
        elif a[i] == "--stride": stride = int(a[i + 1])
        elif a[i] == "--out": out = a[i + 1]
        i += 2
    os.makedirs(out, exist_ok=True)
    ensure_mutgen()
    if stage == "stage1":
        muts = list_mutants(files, stride)
        print("mutants:", len(muts), flush=True)
        run_stage(stage1_one, muts, workers, out + "/stage1.jsonl", load(out + "/stage1.jsonl"))
    elif stage == "stage1b":
        s1 = load(out + "/stage1.jsonl")
        muts = [r for r in s1.values() if r["result"] in ("survived", "timeout", "killed-other") and r["file"] in MAP]
        print("stage-1 survivors:", len(muts), flush=True)
        run_stage(stage1b_one, muts, workers, out + "/stage1b.jsonl", load(out + "/stage1b.jsonl"))
    elif stage == "stage2":
        # tools/muttriage.py has set aside the mutants that are equivalent by inspection
        muts = [json.loads(l) for l in open(out + "/triage.jsonl")]
        muts = [r for r in muts if r["verdict"] == "test"]
        # a full quick check costs minutes per mutant: the survivors are visited in a fixed
        # pseudo-random order so that a run stopped early is an unbiased sample over files
        import hashlib
        muts.sort(key=lambda r: hashlib.sha1(("%s#%d" % (r["file"], r["n"])).encode()).hexdigest())
        print("stage-1 survivors:", len(muts), flush=True)
        run_stage(stage2_one, muts, workers, out + "/stage2.jsonl", load(out + "/stage2.jsonl"))
    elif stage == "stage3":
        s2 = load(out + "/stage2.jsonl")
        muts = [r for r in s2.values() if r["result"] in ("survived", "inconclusive")]
        print("stage-2 survivors:", len(muts), flush=True)
        run_stage(stage3_one, muts, workers, out + "/stage3.jsonl", load(out + "/stage3.jsonl"))
    for s in ("stage1", "stage1b", "stage2", "stage3"):
        r = load(out + "/%s.jsonl" % s)
        if r:
            c = {}
            for x in r.values():
                c[x["result"]] = c.get(x["result"], 0) + 1
            print(s, c)

if __name__ == "__main__":
    main()
