#!/bin/bash
# usage: tools/eval_seeded.sh [id ...]
# For every kept seeded change: apply it to /repo ITSELF (git apply), run the quick check of the
# property it targets, undo it straight afterwards (git checkout -- .), and record the outcome
# in seeded/<id>/meta.json ("my_checks") and seeded/RESULTS.tsv.
set -u
cd /verif
ids=${@:-$(ls seeded | grep -v RESULTS)}
for id in $ids; do
  d=seeded/$id
  [ -f $d/patch.diff ] || continue
  prop=${id%%-*}
  [ -f $d/target_override ] && prop=$(cat $d/target_override)
  if ! git -C /repo diff --quiet; then echo "/repo is dirty, refusing"; exit 2; fi
  git -C /repo apply --whitespace=nowarn /verif/$d/patch.diff || { echo "$id: patch does not apply"; continue; }
  tier=quick
  [ -f $d/tier_override ] && tier=$(cat $d/tier_override)
  out=$(./check $prop --tier $tier 2>&1); rc=$?
  git -C /repo checkout -- .
  # anything the run wrote into the committed replay dir belongs to the seeded change, not to the tree
  git -C /verif status --porcelain replays | awk '{print $2}' | while read f; do rm -rf "/verif/$f"; done
  git -C /verif checkout -- evidence 2>/dev/null
  detail=$(echo "$out" | grep -a "^DETAIL" | head -1 | cut -c1-300)
  [ "$tier" = quick ] || prop="$prop($tier)"
  echo -e "$id\t$prop\trc=$rc\t$detail" | tee -a seeded/RESULTS.tsv.new
  python3 - "$d/meta.json" "$prop" "$rc" "$detail" <<'PY'
import json, sys
p, prop, rc, detail = sys.argv[1:5]
m = json.load(open(p))
m["my_checks"] = {"applied_to": "/repo (git apply, then git checkout -- .)", "command": "./check %s --tier %s" % (prop.split("(")[0], "thorough" if "(" in prop else "quick"),
                  "exit_code": int(rc), "caught": int(rc) == 1, "first_detail": detail}
json.dump(m, open(p, "w"), indent=1)
PY
done
# merge: lines of ids that were not evaluated in this call are kept
if [ -f seeded/RESULTS.tsv.new ]; then
  python3 - <<'PY'
import os
old = {}
if os.path.exists("seeded/RESULTS.tsv"):
    for l in open("seeded/RESULTS.tsv"):
        if l.strip():
            old[l.split("\t")[0]] = l
for l in open("seeded/RESULTS.tsv.new"):
    if l.strip():
        old[l.split("\t")[0]] = l
open("seeded/RESULTS.tsv", "w").write("".join(old[k] for k in sorted(old)))
os.remove("seeded/RESULTS.tsv.new")
PY
fi
