#!/bin/bash
# usage: tools/try_patch.sh <patch.diff> <prop> [<prop>...]
# Applies the patch to a scratch copy of /repo (not to /repo) and runs the quick checks against it.
set -u
patch=$1; shift
d=$(mktemp -d /tmp/verif-try.XXXXXX)
rsync -a --exclude .git /repo/ $d/
( cd $d && git init -q . >/dev/null 2>&1 && git apply --whitespace=nowarn "$patch" ) || { echo "PATCH DOES NOT APPLY"; rm -rf $d; exit 3; }
rm -rf $d/.git
for p in "$@"; do
  VERIF_REPO=$d /verif/check $p --tier ${TIER:-quick} 2>&1 | grep -a "^VIOLATION\|^DETAIL\|quick:\|thorough:\|INCONCL" | cut -c1-400 | head -${LINES_MAX:-6}
done
rm -rf $d
