#!/usr/bin/env python3
"""Sensitivity experiments: apply one hand-written mutant at a time to a scratch
copy of /repo (never to /repo itself), run the quick check(s) of the property it
targets with VERIF_REPO pointing at the copy, and report caught / missed.

  tools/mutants.py [name-substring ...]      run the selected (default: all) mutants
  tools/mutants.py --list

Results are appended to tools/mutants_result.jsonl. Scratch copies live under
/tmp/verif-mutants and are removed after each run.
"""
import json, os, shutil, subprocess, sys, time
from concurrent.futures import ThreadPoolExecutor

VERIF = os.path.dirname(os.path.dirname(os.path.abspath(__file__)))
WORK = "/tmp/verif-mutants"

# (name, properties expected to catch it, file, old, new, expect) ; expect: "caught" | "silent" (negative control)
M = []
def m(name, props, file, old, new, expect="caught", count=1):
    M.append(dict(name=name, props=props, file=file, old=old, new=new, expect=expect, count=count))

# ---- C01 / lookup path
m("c01-bignode-sign-extend", ["C01"], "trie/slimtrie_query.go",
  "ithBit = 1 + int32(qr.key[keyBitIdx>>3])", "ithBit = 1 + int32(int8(qr.key[keyBitIdx>>3]))")
m("c01-short-straddle-boundary", ["C01", "C10"], "trie/slimtrie_query.go",
  "if j <= 64-ns.ShortSize {\n\t\t\t\tbm = (w >> uint32(j)) & vars.ShortMask", "if j < 64-ns.ShortSize {\n\t\t\t\tbm = (w >> uint32(j)) & vars.ShortMask")
m("c01-short-straddle-mask", ["C01"], "trie/slimtrie_query.go",
  "bm = (w >> uint32(j)) | (w2 << uint(64-j) & vars.ShortMask)", "bm = (w >> uint32(j)) | (w2 << uint(63-j) & vars.ShortMask)")
m("c01-vlen-fixed-stride", ["C01"], "trie/slimtrie_vlen_array.go",
  "if allEqual {", "if allEqual || len(nonEmptyIndexes) < 3 {")
m("c01-leafprefix-empty-tail", ["C01", "C03"], "trie/slimtrie_create.go",
  "if len(pref) > 0 {", "if len(pref) > 1 {")
m("c01-leaf-ordinal-16bit", ["C01"], "trie/slimtrie_query.go",
  "\treturn nodeid - r, ith\n", "\treturn int32(uint16(nodeid - r)), ith\n")
m("c01-innerprefix-rank-16bit", ["C01"], "trie/slimtrie_query.go",
  "\t\t\tqr.innerPrefixLen = decStep(ips.Bytes[ithPref<<1:])", "\t\t\tqr.innerPrefixLen = decStep(ips.Bytes[int32(uint16(ithPref))<<1:])")
# ---- C02
m("c02-no-rightmost-descent", ["C02", "C09"], "trie/slimtrie_query.go",
  "\tif lID != -1 {\n\t\tlID = st.rightMost(lID)\n\t}", "\tif lID != -1 && false {\n\t\tlID = st.rightMost(lID)\n\t}")
m("c02-leftchild-bound", ["C02", "C09", "C03"], "trie/slimtrie_query.go",
  "if leftChild >= leftMostChild && leftChild <= rightMostChild {", "if leftChild > leftMostChild && leftChild <= rightMostChild {")
# equivalent under the listed properties: i > l cannot happen for an indexed key (the step of a node never
# exceeds the shortest key of its subset), and answers for absent keys in filter modes are unspecified.
m("c02-step-overrun-side", ["C02", "C09", "C10"], "trie/slimtrie_query.go",
  "\t\t\tif i > l {\n\t\t\t\trID = eqID\n\t\t\t\teqID = -1\n\t\t\t\tbreak\n\t\t\t}", "\t\t\tif i > l {\n\t\t\t\tlID = eqID\n\t\t\t\teqID = -1\n\t\t\t\tbreak\n\t\t\t}", expect="silent")
# ---- C03
m("c03-search-prefix-sign", ["C03"], "trie/slimtrie_query.go",
  "\t\t\t} else if r < 0 {\n\t\t\t\trID = eqID\n\t\t\t\teqID = -1\n\t\t\t\tbreak\n\t\t\t} else {\n\t\t\t\tlID = eqID", "\t\t\t} else if r > 0 {\n\t\t\t\trID = eqID\n\t\t\t\teqID = -1\n\t\t\t\tbreak\n\t\t\t} else {\n\t\t\t\tlID = eqID")
m("c03-rightchild-bound", ["C03", "C09"], "trie/slimtrie_query.go",
  "if rightChild >= leftMostChild && rightChild <= rightMostChild {", "if rightChild >= leftMostChild && rightChild < rightMostChild {")
m("c03-leaf-tail-not-compared-when-longer", ["C03", "C13"], "trie/slimtrie_query.go",
  "if !bytes.Equal(qr.leafPrefix, []byte(key[i>>3:])) {", "if !bytes.HasPrefix([]byte(key[i>>3:]), qr.leafPrefix) {")
m("c03-cmpleaf-three-way", ["C03"], "trie/slimtrie_query.go",
  "\t\t\tif r == -1 {\n\t\t\t\trID = eqID", "\t\t\tif r == -1 && len(tail) > 0 {\n\t\t\t\trID = eqID")
# ---- C04
m("c04-short-label-16-skipped", ["C04"], "trie/slimtrie_scan.go",
  "if v.labelBit == 17 {", "if v.labelBit == 16 {")
m("c04-rightpathlen", ["C04"], "trie/slimtrie_scan.go",
  "\t\tif rightChild <= rightMostChild {\n\t\t\trID = rightChild\n\t\t\trightPathLen = int32(len(path))\n\t\t}", "\t\tif rightChild <= rightMostChild {\n\t\t\trID = rightChild\n\t\t\tif rightPathLen < 0 {\n\t\t\t\trightPathLen = int32(len(path))\n\t\t\t}\n\t\t}")
m("c04-append-label-mask", ["C04"], "trie/slimtrie_scan.go",
  "(*buf)[l-1] = c&(^mask) | (byte(v.label) & mask)", "(*buf)[l-1] = c | (byte(v.label) & mask)")
m("c04-exclusive-start-ignored-for-single", ["C04"], "trie/slimtrie_scan.go",
  "\t\tif len(path) == 1 {", "\t\tif len(path) <= 1 {")
m("c04-guard-removed", ["C04"], "trie/slimtrie_scan.go",
  "if ips := st.inner.InnerPrefixes; ips.EltCnt > 0 && ips.PositionBM == nil {", "if ips := st.inner.InnerPrefixes; ips.EltCnt > 1 && ips.PositionBM == nil {")
# ---- C05
m("c05-map-order-leaks", ["C05"], "trie/slimtrie_create.go",
  "\t\t\tif ss[i].cnt == ss[j].cnt {\n\t\t\t\treturn ss[i].bitmap17 > ss[j].bitmap17\n\t\t\t}\n", "")
m("c05-reset-keeps-levels", ["C05"], "trie/slimtrie_marshal.go",
  "\tst.levels = []levelInfo{{0, 0, 0, nil}}\n}", "}")
m("c05-unmarshal-keeps-old-on-error", ["C05", "C07"], "trie/slimtrie_marshal.go",
  "func (st *SlimTrie) Unmarshal(buf []byte) error {\n\n\tst.inner = &Slim{}\n", "func (st *SlimTrie) Unmarshal(buf []byte) error {\n")
# ---- C06
m("c06-step-rescale", ["C06"], "trie/slimtrie_marshal.go",
  "\t\tstp--\n", "")
m("c06-leaf-in-inner-forgotten", ["C06"], "trie/slimtrie_marshal.go",
  "\t\t\tif hasLeaf {\n\t\t\t\tbm |= 1\n\t\t\t}", "\t\t\tif hasLeaf && newid > 0 {\n\t\t\t\tbm |= 1\n\t\t\t}")
m("c06-prefix-nzero", ["C06"], "trie/slimtrie_marshal.go",
  "bitLen = pl<<3 - nZero - 1", "bitLen = pl<<3 - nZero")
# ---- C07
m("c07-accept-newer-patch", ["C07"], "trie/slimtrie.go",
  "\"==\" + slimtrieVersion,", "\">=\" + slimtrieVersion,")
m("c07-ignore-leaves-section-error", ["C07"], "trie/slimtrie_marshal.go",
  "\t_, _, err = pbcmpl.Unmarshal(reader, leaves)\n\tif err != nil {\n\t\treturn errors.WithMessage(err, \"failed to unmarshal leaves\")\n\t}", "\t_, _, err = pbcmpl.Unmarshal(reader, leaves)\n\tif err != nil && len(leaves.Bitmaps) == 0 && false {\n\t\treturn errors.WithMessage(err, \"failed to unmarshal leaves\")\n\t}")
# ---- C08
m("c08-accept-duplicates", ["C08"], "trie/slimtrie_create.go",
  "if keys[i] >= keys[i+1] {", "if keys[i] > keys[i+1] {")
m("c08-step-limit-off", ["C08"], "trie/slimtrie_create.go",
  "(wordStart-o.fromKeyBit)>>2 > maxStep {", "(wordStart-o.fromKeyBit)>>3 > maxStep {")
# ---- C10
m("c10-no-overrun-check", ["C10", "C01"], "trie/slimtrie_query.go",
  "\t\tif i > l {\n\t\t\treturn -1\n\t\t}\n", "")
# ---- C11
m("c11-shared-query-session", ["C11"], "trie/slimtrie_query.go",
  "\tl := int32(8 * len(key))\n\tqr := &querySession{\n\t\tkeyBitLen: l,\n\t\tkey:       key,\n\t}\n\n\ti := int32(0)\n\n\tfor {\n\n\t\tst.getNode(eqID, qr)\n\t\tif qr.isInner == 0 {\n\t\t\t// leaf\n\t\t\tbreak\n\t\t}\n\n\t\tif qr.hasInnerPrefix {\n\t\t\tr := strCmpUpto(key[i>>3:], qr.innerPrefix)\n\t\t\tif r != 0 {",
  "\tl := int32(8 * len(key))\n\tqr := &sharedQS\n\t*qr = querySession{\n\t\tkeyBitLen: l,\n\t\tkey:       key,\n\t}\n\n\ti := int32(0)\n\n\tfor {\n\n\t\tst.getNode(eqID, qr)\n\t\tif qr.isInner == 0 {\n\t\t\t// leaf\n\t\t\tbreak\n\t\t}\n\n\t\tif qr.hasInnerPrefix {\n\t\t\tr := strCmpUpto(key[i>>3:], qr.innerPrefix)\n\t\t\tif r != 0 {")
# ---- C12
m("c12-rangeget-uses-get", ["C12"], "index/index.go",
  "o, found := si.SlimTrie.RangeGet(key)", "o, found := si.SlimTrie.Get(key)")
# ---- C13
m("c13-tail-check-skipped", ["C13", "C03"], "trie/slimtrie_query.go",
  "\t\t\tif qr.hasLeafPrefix {\n\t\t\t\treturn -1\n\t\t\t} else {\n\t\t\t\treturn eqID\n\t\t\t}", "\t\t\treturn eqID")
# ---- C14
m("c14-i16-high-byte-unsigned", ["C14"], "trie/slimtrie_getint.go",
  "v := int16(b[0]) | int16(b[1])<<8", "v := int16(b[0]) | int16(b[1]&0x7f)<<8")
m("c14-i64-shift", ["C14"], "trie/slimtrie_getint.go",
  "int64(b[6])<<48 | int64(b[7])<<56", "int64(b[6])<<48 | int64(b[7])<<48")
# ---- C15
m("c15-string16-len-trunc", ["C15"], "encode/encoder.go",
  "\trst[0] = byte(l >> 8)\n", "\trst[0] = byte(l>>8) & 0x7f\n")
m("c15-i32-encoded-size", ["C15"], "encode/int.go",
  "// GetEncodedSize returns 4.\nfunc (c I32) GetEncodedSize(b []byte) int {\n\treturn 4", "// GetEncodedSize returns 4.\nfunc (c I32) GetEncodedSize(b []byte) int {\n\treturn len(b)")
# ---- C16
m("c16-accept-equal-indexes", ["C16"], "array/base.go",
  "if index[i] >= index[i+1] {", "if index[i] > index[i+1] {")
m("c16-zero-offset-loop-removed", ["C16"], "array/base.go",
  "\tfor i, word := range a.Bitmaps {\n\t\tif word == 0 {\n\t\t\ta.Offsets[i] = 0\n\t\t}\n\t}\n", "", expect="silent")
m("c16-init-clobbers-before-validation", ["C16"], "array/base.go",
  "\tfor i := 0; i < len(index)-1; i++ {\n\t\tif index[i] >= index[i+1] {\n\t\t\treturn ErrIndexNotAscending\n\t\t}\n\t}\n\n\ta.Bitmaps = bitmap.Of(index)",
  "\ta.Cnt = 0\n\tfor i := 0; i < len(index)-1; i++ {\n\t\tif index[i] >= index[i+1] {\n\t\t\treturn ErrIndexNotAscending\n\t\t}\n\t}\n\n\ta.Bitmaps = bitmap.Of(index)")
# ---- C17
m("c17-inner-prefix-by-default", ["C17"], "trie/slimtrie.go",
  "\tif o.InnerPrefix == nil {\n\t\to.InnerPrefix = Bool(false)", "\tif o.InnerPrefix == nil {\n\t\to.InnerPrefix = Bool(true)")
m("c17-no-short-nodes", ["C17"], "trie/slimtrie_create.go",
  "for shortSize := int32(1); shortSize < maxShortSize+1; shortSize++ {", "for shortSize := int32(1); shortSize < 1; shortSize++ {", expect="silent")
# ---- C18
m("c18-keycnt-from-total", ["C18"], "trie/slimtrie_stat.go",
  "rst.KeyCnt = st.levels[level_cnt-1].leaf", "rst.KeyCnt = st.levels[level_cnt-1].total - st.levels[1].inner")
m("c18-level-inner-offbyone", ["C18"], "trie/slimtrie_level.go",
  "st.levels = append(st.levels, levelInfo{total: currId, inner: nextInnerIdx, leaf: currId - nextInnerIdx})", "st.levels = append(st.levels, levelInfo{total: currId, inner: nextInnerIdx + 1, leaf: currId - nextInnerIdx})")
# ---- C19
m("c19-double-decode-again", ["C19", "C18"], "trie/slimtrie_query.go",
  "return bmtree.Decode(size, bm)", "_ = size\n\treturn bmtree.Decode(qr.to-qr.from, bm)")
m("c19-step-text-wrong", ["C19"], "trie/slimtrie_str.go",
  "\t\tstep := n.innerPrefixLen\n", "\t\tstep := n.innerPrefixLen &^ 7\n")
# ---- C20
m("c20-opt-written-through", ["C20"], "trie/slimtrie.go",
  "\tif o.Complete != nil && *o.Complete == true {\n\t\to.InnerPrefix = Bool(true)\n\t\to.LeafPrefix = Bool(true)", "\tif o.Complete != nil && *o.Complete == true {\n\t\tif o.InnerPrefix != nil {\n\t\t\t*o.InnerPrefix = true\n\t\t} else {\n\t\t\to.InnerPrefix = Bool(true)\n\t\t}\n\t\to.LeafPrefix = Bool(true)")
m("c20-legacy-prefix-rewrite-on-input", ["C20", "C05"], "trie/slimtrie_marshal.go",
  "func (st *SlimTrie) Marshal() ([]byte, error) {\n\tvar buf []byte\n\twriter := bytes.NewBuffer(buf)", "var lastMarshal []byte\n\nfunc (st *SlimTrie) Marshal() ([]byte, error) {\n\tbuf := lastMarshal[:0]\n\twriter := bytes.NewBuffer(buf)\n\tdefer func() { lastMarshal = writer.Bytes() }()")

def run_one(mu):
    name = mu["name"]
    d = os.path.join(WORK, name)
    shutil.rmtree(d, ignore_errors=True)
    os.makedirs(WORK, exist_ok=True)
    subprocess.check_call(["rsync", "-a", "--exclude", ".git", "/repo/", d + "/"])
    path = os.path.join(d, mu["file"])
    src = open(path).read()
    if src.count(mu["old"]) != mu["count"]:
        shutil.rmtree(d, ignore_errors=True)
        return dict(name=name, status="PATCH-DOES-NOT-APPLY (%d matches)" % src.count(mu["old"]))
    src = src.replace(mu["old"], mu["new"])
    if name == "c11-shared-query-session":
        src = src.replace("type querySession struct {", "var sharedQS querySession\n\ntype querySession struct {", 1)
    open(path, "w").write(src)
    env = dict(os.environ, VERIF_REPO=d, GOFLAGS="-mod=mod", GOPROXY="off", GOSUMDB="off", GOTOOLCHAIN="local")
    b = subprocess.run(["go", "build", "./..."], cwd=d, env=env, stdout=subprocess.PIPE, stderr=subprocess.STDOUT, text=True)
    if b.returncode != 0:
        shutil.rmtree(d, ignore_errors=True)
        return dict(name=name, status="DOES-NOT-COMPILE", out=b.stdout[-800:])
    res = {}
    for p in mu["props"]:
        t0 = time.time()
        r = subprocess.run([os.path.join(VERIF, "check"), p, "--tier", os.environ.get("MUT_TIER", "quick")], cwd=VERIF, env=env,
                           stdout=subprocess.PIPE, stderr=subprocess.STDOUT, text=True)
        detail = [l for l in r.stdout.splitlines() if l.startswith("DETAIL")][:1]
        res[p] = dict(rc=r.returncode, s=round(time.time() - t0, 1), detail=(detail[0][:300] if detail else r.stdout[-300:] if r.returncode == 2 else ""))
    shutil.rmtree(d, ignore_errors=True)
    caught = [p for p, v in res.items() if v["rc"] == 1]
    primary = mu["props"][0]
    if mu["expect"] == "caught":
        status = "caught" if res[primary]["rc"] == 1 else ("caught-by-other" if caught else "MISSED")
    else:
        status = "silent-as-expected" if not caught else "UNEXPECTED-ALARM"
    return dict(name=name, status=status, expect=mu["expect"], results=res)

def main():
    args = sys.argv[1:]
    if args and args[0] == "--list":
        for mu in M:
            print(mu["name"], mu["props"], mu["expect"])
        return
    sel = [mu for mu in M if not args or any(a in mu["name"] for a in args)]
    with ThreadPoolExecutor(max_workers=int(os.environ.get("MUT_PAR", "4"))) as ex:
        for r in ex.map(run_one, sel):
            print(json.dumps(r), flush=True)
            with open(os.path.join(VERIF, "tools", "mutants_result.jsonl"), "a") as f:
                f.write(json.dumps(r) + "\n")

if __name__ == "__main__":
    main()
