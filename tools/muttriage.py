#!/usr/bin/env python3
"""Triage of the stage-1 survivors of tools/mutsweep.py: mutants that cannot change any
observable the 20 properties speak of are set aside with a reason (checked by reading the
code; the line numbers refer to /repo at the commit the sweep ran on); the rest get a
narrowed list of properties for stage 2. Writes <out>/triage.jsonl."""
import json, sys, os
out = sys.argv[1] if len(sys.argv) > 1 else "/root/mutsweep"
EQ = {
 # file: {line: reason}
 "trie/slimtrie_create.go": {
   **{l: "capacity argument of make()" for l in (100, 103, 108, 259, 480)},
   **{l: "must.Be assertion (compiled out without the debug tag)" for l in (125, 159, 160, 200, 222, 236, 490, 510, 526, 551)},
   **{l: "guards an internal panic that valid input does not reach" for l in (169, 170, 537, 538)},
   212: "c.prefs is a write-only map", 
   **{l: "leafCnt of the creator is not read any more (fix 0ca1377 sizes the bitmap by nodeCnt-innerCnt)" for l in (88, 227, 241)},
   194: "| and ^ agree on disjoint bit fields",
   **{l: "argument of an error message" for l in (471, 562)},
   499: "no-op statement", 
   **{l: "minPrefix is the constant 0: prefLen < 0 never holds" for l in (515, 516, 517, 531, 532, 533)},
   596: "subset.level is never read",
   667: "shift is always 0 here",
   **{l: "capacity / initial value overwritten before use" for l in (451,)},
 },
 "trie/slimtrie.go": {**{l: "must.Be assertion (compiled out)" for l in (211, 212, 215)},
                      **{l: "content() is never called" for l in range(239, 251)}},
 "trie/slimtrie_getint.go": {l: "| and ^ agree on disjoint bit fields" for l in (37, 58, 79)},
 "trie/slimtrie_query.go": {469: "| and ^ agree on disjoint bit fields", 563: "guards panic(\"impossible!!\")", 564: "panic(\"impossible!!\") is unreachable on valid data"},
 "trie/slimtrie_scan.go": {**{l: "capacity argument of make()" for l in (95,)}, 429: "unreachable panic", 445: "| and ^ agree on disjoint bit fields"},
 "trie/slimtrie_vlen_array.go": {64: "guards an out-of-bound panic no lookup reaches", 65: "out-of-bound panic no lookup reaches"},
 "encode/encoder.go": {83: "capacity argument of make()"},
 "encode/nativeint.go": {21: "unreachable panic", 40: "unreachable panic"},
 "encode/type_encoder.go": {75: "panic on a value of another type (outside the encoder's domain)", 82: "unreachable panic", 95: "unreachable panic"},
 "array/base.go": {75: "panic on a non-slice argument (outside the domain)", 106: "InitElts never returns an error: both branches return nil"},
}
# size-only heuristics of the builder: the trie stays correct whatever they choose;
# only the serialized size (C17 bound) and determinism (C05) can notice
SIZE_ONLY_FUNCS = {"memIncrOfShortSize", "findMinShortSize", "sortedBMCounts"}
NARROW = {
 "trie/slimtrie_query.go": ["C03", "C10", "C02", "C09", "C13", "C06"],
 "trie/slimtrie_scan.go": ["C04", "C06"],
 "trie/slimtrie_create.go": ["C01", "C03", "C06", "C05", "C08", "C19"],
 "trie/slimtrie_vlen_array.go": ["C01", "C04", "C05", "C19"],
 "trie/slimtrie_stat.go": ["C18"], "trie/slimtrie_str.go": ["C19"],
 "trie/slimtrie.go": ["C01", "C20", "C08"],
 "trie/slimtrie_getint.go": ["C14"],
 "array/base.go": ["C16", "C06"], "array/array.go": ["C16"], "array/int.go": ["C16"],
 "encode/encoder.go": ["C15", "C16"], "encode/nativeint.go": ["C15", "C01"], "encode/type_encoder.go": ["C15", "C16"],
 "encode/int.go": ["C15", "C14"], "encode/int8.go": ["C15", "C14"],
}
n_eq = n_test = 0
with open(os.path.join(out, "triage.jsonl"), "w") as f:
    for l in open(os.path.join(out, "stage1.jsonl")):
        r = json.loads(l)
        if r["result"] not in ("survived", "timeout", "killed-other") or r["file"] not in NARROW:
            continue
        reason = EQ.get(r["file"], {}).get(r["line"])
        if r["kind"] == "delstmt" and r["old"].startswith("must.Be"):
            reason = "must.Be assertion (compiled out)"
        if reason:
            r["verdict"], r["reason"] = "equivalent", reason
            n_eq += 1
        else:
            r["verdict"] = "test"
            r["props"] = ["C05", "C17", "C01"] if r["func"] in SIZE_ONLY_FUNCS else NARROW[r["file"]]
            n_test += 1
        f.write(json.dumps(r) + "\n")
print("equivalent by inspection:", n_eq, " to stage 2:", n_test)
