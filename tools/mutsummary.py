#!/usr/bin/env python3
"""Summarises the mutation sweep (tools/mutsweep.py, tools/muttriage.py) into
tools/mutsweep_summary.json and prints the markdown table used in DESIGN.md 10.8.
usage: tools/mutsummary.py [result-dir ...]   (default /root/mutsweep /root/mutsweep_b)"""
import json, os, sys, collections

V = os.path.dirname(os.path.dirname(os.path.abspath(__file__)))
dirs = sys.argv[1:] or ["/root/mutsweep", "/root/mutsweep_b"]

def load(name):
    recs = {}
    for d in dirs:
        p = os.path.join(d, name)
        if os.path.exists(p):
            for l in open(p):
                r = json.loads(l)
                k = "%s#%d" % (r["file"], r["n"])
                # a later directory re-ran files whose first run was disturbed
                if k in recs and recs[k]["result"] != "nocompile" and r.get("result") == "nocompile":
                    continue
                recs[k] = r
    return recs

s1 = load("stage1.jsonl")
s1 = {k: r for k, r in s1.items() if "getnode" not in r["file"]}
tri = load("triage.jsonl")
s2 = load("stage2.jsonl")
s3 = load("stage3.jsonl")
byfile = collections.defaultdict(collections.Counter)
for k, r in s1.items():
    byfile[r["file"]][r["result"]] += 1
    if r["result"] in ("survived", "timeout", "killed-other"):
        t = tri.get(k)
        if t and t["verdict"] == "equivalent":
            byfile[r["file"]]["equivalent_by_inspection"] += 1
        elif k in s2:
            byfile[r["file"]]["stage2_" + s2[k]["result"]] += 1
        else:
            byfile[r["file"]]["stage2_not_run"] += 1
tot = collections.Counter()
for f in byfile:
    tot.update(byfile[f])
survivors2 = [dict(file=r["file"], line=r["line"], kind=r["kind"], old=r["old"][:60], new=r["new"][:60],
                   suite=s3.get(k, {}).get("result", "")) for k, r in sorted(s2.items()) if r["result"] != "killed"]
out = {"total_mutants": sum(1 for _ in s1), "totals": dict(tot), "by_file": {f: dict(c) for f, c in sorted(byfile.items())},
       "stage2_survivors": survivors2}
json.dump(out, open(os.path.join(V, "tools", "mutsweep_summary.json"), "w"), indent=1)
cols = ["nocompile", "killed", "killed-other", "timeout", "survived", "equivalent_by_inspection", "stage2_killed", "stage2_survived", "stage2_inconclusive", "stage2_not_run"]
print("| file | mutants | " + " | ".join(c.replace("_", " ") for c in cols) + " |")
print("|---|---|" + "---|" * len(cols))
for f, c in sorted(byfile.items()):
    print("| %s | %d | " % (f, sum(c[x] for x in ("nocompile", "killed", "killed-other", "timeout", "survived"))) + " | ".join(str(c.get(x, 0)) for x in cols) + " |")
print("| **total** | %d | " % out["total_mutants"] + " | ".join(str(tot.get(x, 0)) for x in cols) + " |")
