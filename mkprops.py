#!/usr/bin/env python3
"""Generates props.json (the driver's property table). Edit here, run, commit both."""
import json

T = {}

def add(pid, test, level, quick, thorough, rule, text, note, technique, design, **kw):
    d = dict(test=test, level=level, quick=quick, thorough=thorough, rule=rule, text=text,
             note=note, technique=technique, design=design)
    d.update(kw)
    T[pid] = d

RAPID = "property-based testing (pgregory.net/rapid) against a sorted-map reference model"

add("C01", "TestC01", "exploration",
    dict(cases=40000, shards=8, extra=[dict(test="TestC01BigLeaves", shards=1), dict(test="TestC01Large", shards=9), dict(test="TestC01Regular", shards=4), dict(test="TestC01Sizes", shards=4), dict(test="TestC01IndependentReaders", shards=1)]),
    dict(cases=600000, shards=16, timeout_s=3000, extra=[dict(test="TestC01BigLeaves", shards=1), dict(test="TestC01Large", shards=14), dict(test="TestC01Regular", shards=8, timeout_s=3000), dict(test="TestC01Sizes", shards=8, timeout_s=3000), dict(test="TestC01IndependentReaders", shards=1, timeout_s=3000)], fuzz=dict(target="FuzzC01", seconds=240)),
    "cases = one trie of 900000 keys with 300-byte values (270 MB of leaves: bit offsets beyond 2^31) + deterministic large shapes (70000-100000 keys: > 65535 nodes and leaves, 257 big nodes, short-table sizes 8-10, > 64 KiB of var-len values) + (key set from families K1..K7/Krand/Kshort) x (values nil|distinct|runs|aba|random|pairdup|const) x 14 encoders x 81 option structs x {fresh, Unmarshal(Marshal), proto round trip}; a case is non-trivial when it retains >= 2 keys and has a stored step, a key that is a prefix of another, or a byte >= 0x80; distinct = FNV-64 of the canonical case",
    "Generated-input search: every retained key of every generated trie is looked up with Get and GetID and compared with the model's retained-key rule computed on independently encoded values. Shapes are constructed so that 257-bit nodes, short nodes of each table size, long steps, prefix keys, the empty key and bytes >= 0x80 occur by design; the class histogram in the evidence shows how often. Not a proof: absence of counterexamples in the explored space.",
    "Trusted: the reference model and the independent value encodings in the harness. Not reached: > 10^5 keys, node ids near 2^31, 32-bit platforms.",
    RAPID, "DESIGN.md §4 C01")

add("C02", "TestC02", "exploration",
    dict(cases=40000, shards=8, extra=[dict(test="TestC02Exhaustive", shards=8), dict(test="TestC02Regular", shards=4)]), dict(cases=600000, shards=16, timeout_s=3000, extra=[dict(test="TestC02Exhaustive", shards=16, timeout_s=3000), dict(test="TestC02Regular", shards=8, timeout_s=3000)]),
    "cases as C01 with values forced to contain runs of equal neighbours (geometric run lengths, pair duplication, constant, A/B/A alphabets); non-trivial = at least one de-duplicated key shares a longer prefix with the NEXT retained key than with its own retained predecessor (its bits lead into the wrong neighbour's sub-trie)",
    "Generated-input search: RangeGet on every input key (retained or dropped) must return the value supplied for it, in every option combination, fresh and reloaded.",
    "Trusted: reference model (cover index computed from independently encoded values).",
    RAPID, "DESIGN.md §4 C02")

add("C03", "TestC03", "exploration",
    dict(cases=12000, shards=8, extra=[dict(test="TestC03Exhaustive", shards=8), dict(test="TestC03Regular", shards=4)]),
    dict(cases=200000, shards=16, timeout_s=3000, extra=[dict(test="TestC03Exhaustive", shards=16, timeout_s=3000), dict(test="TestC03Regular", shards=8, timeout_s=3000)],
         fuzz=dict(target="FuzzC03", seconds=240)),
    "rapid part: Complete tries (all three spellings) x dedup x values x load state, queried with Q(keys) = keys, every one-bit/one-byte mutation, proper prefixes, 0x00/0xff extensions, out-of-range strings, '', drawn strings; exhaustive part: every key set of bounded size over a small nibble-diverse alphabet x dedup x every neighbour-equality pattern of values x every universe string as query; non-trivial = an absent query sharing >= 1 byte with a neighbouring retained key (or an exhaustive-universe case with >= 2 keys)",
    "Generated-input search plus exhaustive enumeration of a small universe: Get/GetID/RangeGet/Search on every query are compared with the model (exact membership, floor, strict neighbours).",
    "Trusted: reference model. The exhaustive sub-space is complete only for the stated alphabet/length/size bounds.",
    RAPID + " + exhaustive small-universe enumeration (+ native go fuzzing in thorough)", "DESIGN.md §4 C03")

add("C09", "TestC09", "exploration",
    dict(cases=40000, shards=8, extra=[dict(test="TestC09Exhaustive", shards=8), dict(test="TestC09Regular", shards=4), dict(test="TestC09IndependentReaders", shards=1)]), dict(cases=600000, shards=16, timeout_s=3000, extra=[dict(test="TestC09Exhaustive", shards=16, timeout_s=3000), dict(test="TestC09Regular", shards=8, timeout_s=3000), dict(test="TestC09IndependentReaders", shards=1, timeout_s=3000)]),
    "cases as C01 with values always supplied, all modes, fresh/reloaded; every retained key is a query; non-trivial = >= 3 retained keys on a trie with a 257-bit node, a short node or a prefix key",
    "Generated-input search: Search(k) for every retained key k must return (value of previous retained key | nil, own value, value of next retained key | nil).",
    "Trusted: reference model.", RAPID, "DESIGN.md §4 C09")

add("C10", "TestC10", "exploration",
    dict(cases=12000, shards=8, extra=[dict(test="TestC10Exhaustive", shards=8), dict(test="TestC10Regular", shards=4), dict(test="TestC10Sizes", shards=4), dict(test="TestC10IndependentReaders", shards=1)]), dict(cases=200000, shards=16, timeout_s=3000, extra=[dict(test="TestC10Exhaustive", shards=16, timeout_s=3000), dict(test="TestC10Regular", shards=8, timeout_s=3000), dict(test="TestC10Sizes", shards=8, timeout_s=3000), dict(test="TestC10IndependentReaders", shards=1, timeout_s=3000)], fuzz=dict(target="FuzzC10", seconds=240)),
    "cases as C01 (all modes, nil values, empty and single-key tries, fresh/reloaded) queried with Q(keys) plus 64 KiB strings of 0x00/0xff and a 70 000 byte string; non-trivial = a false positive was observed or an absent query shares a prefix with a retained key",
    "Generated-input search over relations that need no per-mode expectation: no panic; Get.found <=> GetID>=0 <=> Search.eq != nil; Get.found => RangeGet.found with the same value; every returned value was supplied at build time.",
    "Trusted: harness bookkeeping of supplied values. Non-termination is only detected through the test deadline (reported as inconclusive, exit 2).",
    RAPID.replace("against a sorted-map reference model", "with relational oracles") + " (+ native go fuzzing in thorough)", "DESIGN.md §4 C10")

add("C13", "TestC13", "exploration",
    dict(cases=8000, shards=8, extra=[dict(test="TestC13Exhaustive", shards=8)]), dict(cases=200000, shards=16, timeout_s=3000, extra=[dict(test="TestC13Exhaustive", shards=16, timeout_s=3000)]),
    "one (keys, values, dedup) input built in four information levels (filter, inner, leaf, complete; alternative spellings of the options drawn), queried with retained keys and Q(keys); non-trivial = some query found in a weaker mode and rejected in a stronger one",
    "Metamorphic: found in a mode storing more information implies found with the same value in every mode storing less; Complete finds exactly the retained keys; all modes agree on retained keys.",
    "Trusted: reference model for the retained-key set.", "metamorphic property-based testing (rapid)", "DESIGN.md §4 C13")

add("C14", "TestC14", "exploration",
    dict(cases=24000, shards=8, extra=[dict(test="TestC14IndependentReaders", shards=1)]), dict(cases=400000, shards=16, timeout_s=3000, extra=[dict(test="TestC14Huge", shards=1, timeout_s=3000), dict(test="TestC14IndependentReaders", shards=1, timeout_s=3000)]),
    "thorough tier: one trie of 2^25+4096 keys with int64 values (bit offsets of the last leaves exceed 2^31; needs ~9 GB); keys as C01; int8/16/32/64 values over the full range (edge values and random), with duplicate runs; all modes; fresh/reloaded; queries = all input keys and Q(keys); non-trivial = a hit with a negative value on a trie where de-duplication dropped a key",
    "Differential: GetI8/16/32/64(q) must equal Get(q) in flag and number for every query; retained keys are additionally anchored to the model.",
    "Trusted: reference model.", "differential property-based testing (rapid)", "DESIGN.md §4 C14")

add("C18", "TestC18", "exploration",
    dict(cases=24000, shards=8, extra=[dict(test="TestC18Exhaustive", shards=8), dict(test="TestC18Regular", shards=4)]), dict(cases=400000, shards=16, timeout_s=3000, extra=[dict(test="TestC18Exhaustive", shards=16, timeout_s=3000), dict(test="TestC18Regular", shards=8, timeout_s=3000)]),
    "cases as C01 plus tries loaded from generated legacy streams (8 layouts); non-trivial = >= 4 levels and a leaf above the last level",
    "Generated-input search: KeyCnt equals the model's retained-key count; per-level totals are consistent and monotone; (0,0)/(1,1) for empty/single; Stat unchanged by a round trip; KeyCnt preserved by legacy streams; cross-check: String() renders NodeCnt lines.",
    "Trusted: reference model; legacy writers (validated byte-for-byte against the archived fixtures).", RAPID, "DESIGN.md §4 C18")

add("C19", "TestC19", "exploration",
    dict(cases=16000, shards=8, extra=[dict(test="TestC19Regular", shards=4), dict(test="TestC19IndependentReaders", shards=1)]), dict(cases=40000, shards=16, timeout_s=3000, extra=[dict(test="TestC19Regular", shards=8, timeout_s=3000), dict(test="TestC19IndependentReaders", shards=1, timeout_s=3000)]),
    "cases as C01 with integer (or no) values, weighted towards regular trees that produce short nodes of a targeted table size and towards 257-bit nodes; non-trivial = the trie contains at least one table-compressed short node",
    "Generated-input search: String() must not panic, must render every node id exactly once, its leaf lines top to bottom must carry the retained values in key order, the labels and steps on the path to the j-th leaf must spell the bits of the j-th retained key (documented line format <label>-><id>+<step>*<fanout>=<value>), and a reloaded trie must render identically.",
    "Trusted: the rendering grammar of openacid/low/tree and the documented line format.", RAPID, "DESIGN.md §4 C19")

add("C04", "TestC04", "exploration",
    dict(cases=12000, shards=8, extra=[dict(test="TestC04Regular", shards=4), dict(test="TestC04Sizes", shards=4)]), dict(cases=200000, shards=16, timeout_s=3000, extra=[dict(test="TestC04Regular", shards=8, timeout_s=3000), dict(test="TestC04Sizes", shards=8, timeout_s=3000)], fuzz=dict(target="FuzzC04", seconds=180)),
    "Complete tries (fresh, reloaded, loaded from generated 0.5.10/0.5.11 allpref streams; all encoders incl. String16) x drawn scans (API ScanFrom/ScanFromTo/NewIter, start and end from Q(keys) or drawn, both inclusivities, with/without values, callback stop point) + a sweep with every string of Q(keys) as start + full scans; refusal clause: every non-Complete effective mode x dedup x with/without values (12 classes, counted); non-trivial = a scan that yields >= 3 entries from an absent or exclusive start on a trie with a stored inner prefix or a 257-bit node (refusal: >= 2 keys and >= 1 step)",
    "Generated-input search: each scan must yield exactly the model's slice of retained entries (keys bytewise, each once, ascending, value bytes equal to the independent reference encoding, nil when not requested/supplied), invoke the callback exactly once per entry, stop at the stop point, and report exhaustion on 3 further calls. On a non-Complete trie a scan must panic before yielding anything, or yield exactly the model's answer (possible only when the trie happens to hold complete keys).",
    "Trusted: reference model, reference value encodings, legacy 0.5.10 writer (validated against the archive).", RAPID, "DESIGN.md §4 C04")

add("C05", "TestC05", "exploration",
    dict(cases=6000, shards=8, extra=[dict(test="TestC05Large", shards=9), dict(test="TestC05Sizes", shards=4)]),
    dict(cases=160000, shards=16, timeout_s=3000, extra=[dict(test="TestC05Large", shards=14), dict(test="TestC05Sizes", shards=8, timeout_s=3000)]),
    "deterministic large shapes (short-table sizes 8-10, > 65535 nodes/steps/prefixes) round-tripped + 3/4 round-trip cases: a generated trie (all modes/encoders/value layouts) marshalled, rebuilt, reloaded via Unmarshal or proto.Unmarshal; 1/4 history cases: a drawn sequence of 1..6 operations {Unmarshal, proto.Unmarshal, Reset, Unmarshal(truncated stream), Unmarshal(incompatible version)} on ONE instance over a pool of 2..4 streams (empty/small/large, different modes, current and legacy layouts); non-trivial = round trip of a trie with >= 1 inner node, or a history in which a smaller stream or a failed load follows a larger one",
    "Round trip: len(Marshal) == proto.Size, building twice gives identical bytes, proto.Marshal == Marshal, re-marshalling the loaded trie reproduces the bytes, and every API (Get/GetID/RangeGet/Search on Q(keys), scans, Stat, String) answers identically on the fresh and the loaded trie (including false positives). Histories (stateful, model = a fresh twin loaded with only the last successfully applied stream): after every step the instance is observationally equal to the twin; empty on every API after Reset; empty for lookups and scans after a failed load.",
    "Trusted: the twin (a fresh instance loaded once) as the model of 'no residue'. Stat() after a FAILED direct Unmarshal is not asserted (no listed property constrains it).",
    RAPID + " + model-based operation sequences (stateful)", "DESIGN.md §4 C05")

add("C06", "TestC06", "exploration",
    dict(cases=24000, shards=8, extra=[dict(test="TestC06Fidelity"), dict(test="TestC06Archive", shards=8), dict(test="TestC06Large", shards=2)]),
    dict(cases=500000, shards=16, timeout_s=3000, extra=[dict(test="TestC06Fidelity"), dict(test="TestC06Archive", shards=8), dict(test="TestC06Large", shards=7)]),
    "key sets K1..K7/Krand bounded by what the old writers could encode x fixed-size encoders x 8 layouts (three-section families A 0.5.0, B 0.5.1-3, C1 0.5.4-6, C2 0.5.7, D 0.5.8, E 0.5.9 with header 1.0.0/0.5.8/0.5.9; 0.5.10 and 0.5.11 in nopref/innpref/allpref); streams are PRODUCED by re-implemented writers; plus the 97 archived files; non-trivial = >= 2 keys and the loader's conversion did something (a key ending at an inner node or a step for three-section; a stored prefix or leaf reconstruction for 0.5.10)",
    "Generated-input search: every generated legacy stream must load without error and answer Get, RangeGet and Search for every indexed key as the model; KeyCnt preserved; allpref streams additionally give exact answers on Q(keys) and correct scans.",
    "Trusted base: the re-implemented legacy writers. Their fidelity is measured on every run (writer_fidelity in the evidence: archived files reproduced byte-for-byte); the three-section writer shares no code with /repo, the 0.5.10 writer is a transformation of the current builder's message.",
    RAPID + " over streams produced by validated re-implementations of the historical writers", "DESIGN.md §4 C06, §3.5")

add("C07", "TestC07", "fault_enumeration",
    dict(cases=4000, shards=8), dict(cases=60000, shards=16, timeout_s=3000, fuzz=dict(target="FuzzC07", seconds=240)),
    "2/3 cut cases: a stream of a drawn layout (current x 4 modes, 0.5.10/0.5.11 x 3, three-section x 6) from a K1-K3/K5 key set; EVERY cut 0..len-1 when the stream is <= 4 KiB, else every cut within +-64 bytes of each header/section/top-level-field boundary plus up to 256 drawn cuts; the instance holds other data before each cut load. 1/3 version cases: the header version replaced by a string from a grammar (released 0.5.x outside the set, successors, other semver triples, pre-release suffixes, malformed, 16 bytes without terminator, random bytes; compatible strings as positive controls); non-trivial = a stream with cuts inside a body, or any version case",
    "Fault enumeration over the cut point of an interrupted write: each strict prefix must be rejected with an error (no panic, no success) and the instance must then answer lookups and scans as an empty trie; incompatible/unparsable versions must be rejected with ErrIncompatible in the cause chain and leave the instance empty; compatible versions must load and answer.",
    "Trusted: legacy writers (C06). A compatible triple with +build metadata is deliberately not in the must-reject set (semver precedence ignores build metadata).",
    "fault enumeration (every cut point of generated streams) + grammar-generated version strings, rapid-driven", "DESIGN.md §4 C07")

add("C08", "TestC08", "exploration",
    dict(cases=16000, shards=8, extra=[dict(test="TestC08Ladder", shards=8), dict(test="TestC08LargeOrder", shards=4), dict(test="TestC08ConcurrentBuilds", shards=1)]),
    dict(cases=400000, shards=16, timeout_s=3000, extra=[dict(test="TestC08Ladder", shards=16), dict(test="TestC08LargeOrder", shards=8), dict(test="TestC08ConcurrentBuilds", shards=1)]),
    "a 140000-key list with ONE violation at every power-of-two index +-2, multiples of 65536 and 10000, and the ends; valid lists (K1..K6/Krand up to 10^4 keys) with 1..3 injected order violations at drawn indexes (equal neighbours, swapped neighbours, key followed by its own prefix, 0x7f/0x80 and 0xff/0x00 pairs in signed order), valid controls, and key sets whose single-branch run has a drawn length around the 16-bit step boundary; plus the enumerated step ladder L in {0,1,2,255..257,32767,32768,65534..65537,70000,131071,131072,200000}+-2 x 4 placements x 4 modes x dedup x values; plus rounds of 8 goroutines building different tries at the same time (12 quick / 120 thorough), each trie checked on its own keys; non-trivial = violation not at the first/last index, or L within +-2 of a power-of-two boundary",
    "Generated-input search: independent strict-order predicate => (error with cause ErrKeyOutOfOrder and nil trie) for every invalid list, acceptance for every valid list within the documented 16 KiB key length; whatever is accepted must find every key it was built from with its value (Get and RangeGet).",
    "Trusted: bytes.Compare as the order predicate; reference model.",
    RAPID + " + enumerated step-length ladder", "DESIGN.md §4 C08")

add("C20", "TestC20", "exploration",
    dict(cases=4000, shards=8), dict(cases=160000, shards=16, timeout_s=3000),
    "cases as C01 in every layout (current and, for half of the cases, one of 8 legacy layouts), 1/10 rejected (out-of-order) inputs; scribble pattern all-0x00 / all-0xff / pseudo-random; non-trivial = >= 2 keys with values or stored prefixes",
    "Before/after snapshots and a differential against a pristine twin: NewSlimTrie leaves keys, values and the Opt struct (pointer identities and pointees) unchanged, also for rejected input; Unmarshal leaves its input buffer unchanged and overwriting the buffer afterwards changes no answer (lookups on Q(keys), scans, Stat, String, Marshal); overwriting Marshal output changes neither later answers nor later Marshal output; two Marshal results do not share memory.",
    "Trusted: legacy writers for the legacy layouts.", "snapshot + differential property-based testing (rapid)", "DESIGN.md §4 C20")

add("C12", "TestC12", "exploration",
    dict(cases=24000, shards=8, extra=[dict(test="TestC12Regular", shards=4), dict(test="TestC12Million", shards=1), dict(test="TestC12ConcurrentBuilds", shards=1)]), dict(cases=600000, shards=16, timeout_s=3000, extra=[dict(test="TestC12Regular", shards=8, timeout_s=3000), dict(test="TestC12Million", shards=1, timeout_s=3000), dict(test="TestC12ConcurrentBuilds", shards=1, timeout_s=3000)]),
    "sorted record sets (keys K1..K7/Krand with arbitrary bytes, distinct payloads), either one strictly increasing offset per key (Get) or block offsets with block size 2..64 and drawn gaps (RangeGet); reader = map offset -> block that returns a record only when the key is in that block; queries = all keys and Q(keys); plus rounds of 6 goroutines building record indexes at the same time (10 quick / 100 thorough); offsets up to 2^62 with gaps up to 2^39; non-trivial = the reader had to reject at least one lookup (the underlying trie returned an offset for an absent key)",
    "Generated-input search against an exact map model: every indexed key returns its own record, every other string is not found.",
    "Trusted: the verifying reader written in the harness.", RAPID.replace("sorted-map", "map"), "DESIGN.md §4 C12")

add("C15", "TestC15", "exploration",
    dict(cases=32000, shards=8, extra=[dict(test="TestC15Exhaustive", shards=8)]),
    dict(cases=400000, shards=16, timeout_s=3000, extra=[dict(test="TestC15Exhaustive", shards=16, timeout_s=3000)]),
    "exhaustive: all 2^8 I8 and 2^16 I16/U16 values (x junk suffixes); I32/U32: all 2^32 values in the thorough tier, a dense boundary-biased sample (5 x 2^16 per codec) in quick; I64/U64/Int: every 2^k, 2^k+-1 and negations; rapid: random 64-bit values, String16 of lengths {0,1,2,255,256,257,65534,65535} and random, Bytes{Size} for sizes 1..16/255/256/4096/65536, TypeEncoder over three fixed-size struct types with nested arrays in both byte orders, Dummy (sizes only); with and without trailing junk; non-trivial = value with the top bit set or length >= 256",
    "Round trip + size agreement + independent layout: Encode(v) must equal a hand-written reference encoding (shifts, no encoding/binary: little-endian two's complement; configured order field by field for TypeEncoder; big-endian 16-bit length + bytes for String16), GetSize(v) == len == GetEncodedSize(enc ++ junk), Decode(enc ++ junk) = (len, v).",
    "Trusted: the hand-written reference encoders in the harness. Dummy is checked for sizes only (it documents that Decode returns nil).",
    "exhaustive enumeration of small integer domains + property-based testing (rapid) with an independent reference encoder", "DESIGN.md §4 C15")

add("C16", "TestC16", "exploration",
    dict(cases=40000, shards=8, extra=[dict(test="TestC16Exhaustive", shards=8), dict(test="TestC16ConcurrentInits", shards=1), dict(test="TestC16ConcurrentReaders", shards=1)]),
    dict(cases=400000, shards=16, timeout_s=3000, extra=[dict(test="TestC16Exhaustive", shards=16, timeout_s=3000), dict(test="TestC16ConcurrentInits", shards=1, timeout_s=3000), dict(test="TestC16ConcurrentReaders", shards=1, timeout_s=3000)]),
    "exhaustive: every index set of <= 3 elements within 2-3 bitmap words and every 2-element set within 5 words, every index of the span probed; rapid: ascending index sets in [0, 2^20) (empty, single, dense runs, sparse, clusters separated by empty 64-bit words, word-boundary indexes) x element kinds U16/U32/U64/I16/I32/I64 (edge and random values) and a fixed-size struct via array.New; probes = every index of the span when span <= 4096, else listed +-1, word boundaries and drawn; 1/3 invalid inputs (equal/descending neighbours at a drawn position, length off by 1..5); plus rounds of 8 goroutines constructing arrays of different kinds at the same time (10 quick / 100 thorough); non-trivial = an empty bitmap word between populated words (or an invalid input)",
    "Generated-input search against a map[int32]T model: typed Get, raw GetBytes and generic Get agree with the model at every probe within the bitmap span, also after proto.Marshal -> proto.Unmarshal into the typed type and into array.NewEmpty(T); invalid input is rejected with the dedicated error, builds nothing, and a rejected Init leaves an existing array unchanged.",
    "Trusted: the map model. Probes beyond the bitmap span are not claimed (accessors index out of range there by design).",
    RAPID.replace("sorted-map", "map[int32]T"), "DESIGN.md §4 C16")

add("C17", "TestC17", "exploration",
    dict(cases=2400, shards=8, extra=[dict(test="TestC17ConcurrentBuilds", shards=1)]), dict(cases=60000, shards=16, timeout_s=3000, extra=[dict(test="TestC17ConcurrentBuilds", shards=1, timeout_s=3000)]),
    "rounds of 7 goroutines building filter-mode indexes with shared node shapes at the same time (size must equal the size when built alone); default options, no values; shapes: binary caterpillars with a step at every node, fan-out-11 byte nodes, per-node random label bitmaps, long keys (K4, up to 16 KiB), counters, byte fan-out, random bytes, K1, K2; n up to 10^4 (quick) / 10^5 (thorough); two drawn non-empty prefixes P1, P2 of 1 B..8 KiB; non-trivial = n >= 100 with >= n/4 steps, or a prefix >= 1 KiB",
    "Numeric bound len(Marshal()) <= 8n + 256, and metamorphic relation on prepending a common prefix: |size(P1+K) - size(P2+K)| <= 8 and |size(P+K) - size(K)| <= 24 + r, where r is the number of entries of the inner-prefix rank index (adding a step to a root that had none shifts every rank entry; varint growth can add a byte per entry).",
    "The tolerance r is read from the exported protobuf message of the built trie.", "metamorphic + bound property-based testing (rapid)", "DESIGN.md §4 C17")

add("C11", "TestC11", "exploration",
    dict(cases=240, shards=8, timeout_s=900), dict(cases=3200, shards=16, timeout_s=3000),
    "a trie (fresh / reloaded / loaded from a generated legacy stream; half Complete, half any mode) shared by 2..32 goroutines, each with a drawn list of 20..120 read operations (Get, GetID, RangeGet, Search, typed getter, ScanFrom, ScanFromTo, two interleaved iterators per goroutine stepped k times, Stat, String, Marshal) with drawn runtime.Gosched() points, GOMAXPROCS drawn from {1,2,16}; built with -race; non-trivial = >= 2 goroutines that each mix scans/iterators and lookups on a trie with stored inner prefixes",
    "Differential + race detector: every operation's result under concurrency must equal the result of the same operation executed alone beforehand in the same binary; the race detector (halt_on_error) must stay silent; single-threaded lookups (and scans on Complete tries) must not panic in the instrumented build. Schedules are sampled by the Go scheduler, not enumerated.",
    "Trusted: the Go race detector (happens-before based: it flags an unsynchronised conflicting pair when both accesses execute concurrently, largely independent of the exact interleaving). A corruption that needs one specific interleaving AND is invisible to the race detector (e.g. through sync/atomic) is out of reach.",
    "randomized concurrent read workloads (rapid-generated) under the Go race detector, differential against sequential execution", "DESIGN.md §4 C11", race=True)

# A second pass in a build for a 32-bit platform (GOARCH=386; int and uint are 32
# bits wide there): the main generated-input test of each property, fewer cases.
ARCH386 = {"C01": 1600, "C02": 1600, "C03": 1600, "C04": 1200, "C05": 600, "C06": 1200, "C07": 800, "C08": 1200,
           "C09": 1600, "C10": 1200, "C12": 1200, "C13": 1200, "C14": 1200, "C15": 2400, "C16": 2400,
           "C18": 1200, "C19": 600, "C20": 320}
for pid, n in ARCH386.items():
    T[pid]["quick"]["arch386"] = dict(cases=n, shards=4)
    T[pid]["thorough"]["arch386"] = dict(cases=n * 25, shards=16)
    T[pid]["rule"] += "; plus a pass of the main test in a GOARCH=386 build (%d cases quick / %d thorough)" % (n, n * 25)
    T[pid]["note"] = T[pid]["note"].replace(", 32-bit platforms", "")

json.dump(T, open("props.json", "w"), indent=1, sort_keys=True)
print(len(T), "properties")
