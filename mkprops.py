#!/usr/bin/env python3
"""Generates props.json (the driver's property table). Edit here, run, commit both."""
import json

T = {}

def add(pid, test, level, quick, thorough, rule, text, note, technique, design, **kw):
    d = dict(test=test, level=level, quick=quick, thorough=thorough, rule=rule, text=text,
             note=note, technique=technique, design=design)
    d.update(kw)
    T[pid] = d

RAPID = "property-based testing (pgregory.net/rapid) against a sorted-map reference model"

add("C01", "TestC01", "exploration",
    dict(cases=3000, shards=4), dict(cases=150000, shards=16, timeout_s=3000),
    "cases = (key set from families K1..K7/Krand/Kshort) x (values nil|distinct|runs|aba|random|pairdup|const) x 14 encoders x 81 option structs x {fresh, Unmarshal(Marshal), proto round trip}; a case is non-trivial when it retains >= 2 keys and has a stored step, a key that is a prefix of another, or a byte >= 0x80; distinct = FNV-64 of the canonical case",
    "Generated-input search: every retained key of every generated trie is looked up with Get and GetID and compared with the model's retained-key rule computed on independently encoded values. Shapes are constructed so that 257-bit nodes, short nodes of each table size, long steps, prefix keys, the empty key and bytes >= 0x80 occur by design; the class histogram in the evidence shows how often. Not a proof: absence of counterexamples in the explored space.",
    "Trusted: the reference model and the independent value encodings in the harness. Not reached: > 10^5 keys, node ids near 2^31, 32-bit platforms.",
    RAPID, "DESIGN.md §4 C01")

add("C02", "TestC02", "exploration",
    dict(cases=3000, shards=4), dict(cases=150000, shards=16, timeout_s=3000),
    "cases as C01 with values forced to contain runs of equal neighbours (geometric run lengths, pair duplication, constant, A/B/A alphabets); non-trivial = at least one de-duplicated key shares a longer prefix with the NEXT retained key than with its own retained predecessor (its bits lead into the wrong neighbour's sub-trie)",
    "Generated-input search: RangeGet on every input key (retained or dropped) must return the value supplied for it, in every option combination, fresh and reloaded.",
    "Trusted: reference model (cover index computed from independently encoded values).",
    RAPID, "DESIGN.md §4 C02")

add("C03", "TestC03", "exploration",
    dict(cases=2000, shards=4, extra=[dict(test="TestC03Exhaustive", shards=4)]),
    dict(cases=100000, shards=16, timeout_s=3000, extra=[dict(test="TestC03Exhaustive", shards=16, timeout_s=3000)],
         fuzz=dict(target="FuzzC03", seconds=240)),
    "rapid part: Complete tries (all three spellings) x dedup x values x load state, queried with Q(keys) = keys, every one-bit/one-byte mutation, proper prefixes, 0x00/0xff extensions, out-of-range strings, '', drawn strings; exhaustive part: every key set of bounded size over a small nibble-diverse alphabet x dedup x every neighbour-equality pattern of values x every universe string as query; non-trivial = an absent query sharing >= 1 byte with a neighbouring retained key (or an exhaustive-universe case with >= 2 keys)",
    "Generated-input search plus exhaustive enumeration of a small universe: Get/GetID/RangeGet/Search on every query are compared with the model (exact membership, floor, strict neighbours).",
    "Trusted: reference model. The exhaustive sub-space is complete only for the stated alphabet/length/size bounds.",
    RAPID + " + exhaustive small-universe enumeration (+ native go fuzzing in thorough)", "DESIGN.md §4 C03")

add("C09", "TestC09", "exploration",
    dict(cases=3000, shards=4), dict(cases=150000, shards=16, timeout_s=3000),
    "cases as C01 with values always supplied, all modes, fresh/reloaded; every retained key is a query; non-trivial = >= 3 retained keys on a trie with a 257-bit node, a short node or a prefix key",
    "Generated-input search: Search(k) for every retained key k must return (value of previous retained key | nil, own value, value of next retained key | nil).",
    "Trusted: reference model.", RAPID, "DESIGN.md §4 C09")

add("C10", "TestC10", "exploration",
    dict(cases=2500, shards=4), dict(cases=120000, shards=16, timeout_s=3000, fuzz=dict(target="FuzzC10", seconds=240)),
    "cases as C01 (all modes, nil values, empty and single-key tries, fresh/reloaded) queried with Q(keys) plus 64 KiB strings of 0x00/0xff and a 70 000 byte string; non-trivial = a false positive was observed or an absent query shares a prefix with a retained key",
    "Generated-input search over relations that need no per-mode expectation: no panic; Get.found <=> GetID>=0 <=> Search.eq != nil; Get.found => RangeGet.found with the same value; every returned value was supplied at build time.",
    "Trusted: harness bookkeeping of supplied values. Non-termination is only detected through the test deadline (reported as inconclusive, exit 2).",
    RAPID.replace("against a sorted-map reference model", "with relational oracles") + " (+ native go fuzzing in thorough)", "DESIGN.md §4 C10")

add("C13", "TestC13", "exploration",
    dict(cases=1500, shards=4), dict(cases=60000, shards=16, timeout_s=3000),
    "one (keys, values, dedup) input built in four information levels (filter, inner, leaf, complete; alternative spellings of the options drawn), queried with retained keys and Q(keys); non-trivial = some query found in a weaker mode and rejected in a stronger one",
    "Metamorphic: found in a mode storing more information implies found with the same value in every mode storing less; Complete finds exactly the retained keys; all modes agree on retained keys.",
    "Trusted: reference model for the retained-key set.", "metamorphic property-based testing (rapid)", "DESIGN.md §4 C13")

add("C14", "TestC14", "exploration",
    dict(cases=2000, shards=4), dict(cases=100000, shards=16, timeout_s=3000),
    "keys as C01; int8/16/32/64 values over the full range (edge values and random), with duplicate runs; all modes; fresh/reloaded; queries = all input keys and Q(keys); non-trivial = a hit with a negative value on a trie where de-duplication dropped a key",
    "Differential: GetI8/16/32/64(q) must equal Get(q) in flag and number for every query; retained keys are additionally anchored to the model.",
    "Trusted: reference model.", "differential property-based testing (rapid)", "DESIGN.md §4 C14")

add("C18", "TestC18", "exploration",
    dict(cases=3000, shards=4), dict(cases=150000, shards=16, timeout_s=3000),
    "cases as C01 plus tries loaded from generated legacy streams (8 layouts); non-trivial = >= 4 levels and a leaf above the last level",
    "Generated-input search: KeyCnt equals the model's retained-key count; per-level totals are consistent and monotone; (0,0)/(1,1) for empty/single; Stat unchanged by a round trip; KeyCnt preserved by legacy streams; cross-check: String() renders NodeCnt lines.",
    "Trusted: reference model; legacy writers (validated byte-for-byte against the archived fixtures).", RAPID, "DESIGN.md §4 C18")

add("C19", "TestC19", "exploration",
    dict(cases=1200, shards=4), dict(cases=30000, shards=16, timeout_s=3000),
    "cases as C01 with integer (or no) values, weighted towards regular trees that produce short nodes of a targeted table size and towards 257-bit nodes; non-trivial = the trie contains at least one table-compressed short node",
    "Generated-input search: String() must not panic, must render every node id exactly once, its leaf lines top to bottom must carry the retained values in key order, and a reloaded trie must render identically.",
    "Trusted: the rendering grammar of openacid/low/tree (#id, =value). Label text is not asserted.", RAPID, "DESIGN.md §4 C19")

add("C04", "TestC04", "exploration",
    dict(cases=2000, shards=4), dict(cases=60000, shards=16, timeout_s=3000),
    "Complete tries (fresh, reloaded, loaded from generated 0.5.10/0.5.11 allpref streams; all encoders incl. String16) x drawn scans (API ScanFrom/ScanFromTo/NewIter, start and end from Q(keys) or drawn, both inclusivities, with/without values, callback stop point) + a sweep with every string of Q(keys) as start + full scans; refusal clause: every non-Complete effective mode x dedup x with/without values (12 classes, counted); non-trivial = a scan that yields >= 3 entries from an absent or exclusive start on a trie with a stored inner prefix or a 257-bit node (refusal: >= 2 keys and >= 1 step)",
    "Generated-input search: each scan must yield exactly the model's slice of retained entries (keys bytewise, each once, ascending, value bytes equal to the independent reference encoding, nil when not requested/supplied), invoke the callback exactly once per entry, stop at the stop point, and report exhaustion on 3 further calls. On a non-Complete trie a scan must panic before yielding anything, or yield exactly the model's answer (possible only when the trie happens to hold complete keys).",
    "Trusted: reference model, reference value encodings, legacy 0.5.10 writer (validated against the archive).", RAPID, "DESIGN.md §4 C04")

json.dump(T, open("props.json", "w"), indent=1, sort_keys=True)
print(len(T), "properties")
